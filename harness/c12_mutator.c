/* C12: structure-aware custom mutator for the libFuzzer target in c12_fuzz.c.
 *
 * Input = selector byte + payload. For the TLV carrying entry points the payload is read (leniently) into a tree of
 * TLV nodes; a mutation edits the tree (mutate / resize a leaf, retag, flip flags, change header form, duplicate,
 * delete, swap, wrap, splice a sub-tree from another corpus element, empty an element and cut everything after it)
 * and the tree is written back with all enclosing lengths recomputed - or, with a small probability, with one length
 * field deliberately wrong, or with the output cut inside/just after a header. A share of the calls is handed to
 * libFuzzer's own byte level mutations unchanged. The text entry points get token insertion from small dictionaries.
 */
#include <stdint.h>
#include <stddef.h>
#include <string.h>
#include <stdlib.h>
#include "c12_common.h"

size_t LLVMFuzzerMutate(uint8_t *Data, size_t Size, size_t MaxSize);
void c12_setup(void);

/* ---- PRNG */
static uint64_t rs;
static uint64_t rnd(void) { uint64_t z = (rs += 0x9E3779B97F4A7C15ull); z = (z ^ (z >> 30)) * 0xBF58476D1CE4E5B9ull; z = (z ^ (z >> 27)) * 0x94D049BB133111EBull; return z ^ (z >> 31); }
static size_t below(size_t n) { return n ? (size_t)(rnd() % n) : 0; }

/* ---- tree */
#define MN_MAX 6000
#define RAW_NODE 0xffffffffu      /* pseudo node: bytes without a header */
typedef struct {
	unsigned tag; uint8_t nc, fwd, f16, leaf;
	int parent, first, last, next, prev;
	const uint8_t *p; size_t n;     /* leaf payload */
	long badlen;                    /* >= 0: value written into the length field instead of the true one */
	size_t size;                    /* serialised size (computed) */
	size_t out_off, out_hdr;        /* where it was written */
} MNode;
static MNode mn[MN_MAX]; static int mcnt;
#define SCRATCH_SZ (1u << 19)
static uint8_t scratch[SCRATCH_SZ]; static size_t scratch_used;
static uint8_t *salloc(size_t n) { uint8_t *p; if (scratch_used + n > SCRATCH_SZ) return NULL; p = scratch + scratch_used; scratch_used += n; return p; }

static int node_new(int parent) {
	MNode *x;
	if (mcnt >= MN_MAX) return -1;
	x = &mn[mcnt]; memset(x, 0, sizeof(*x));
	x->parent = parent; x->first = x->last = x->next = x->prev = -1; x->badlen = -1; x->leaf = 1;
	return mcnt++;
}
static void link_last(int parent, int c) {
	mn[c].parent = parent; mn[c].next = -1; mn[c].prev = mn[parent].last;
	if (mn[parent].last >= 0) mn[mn[parent].last].next = c; else mn[parent].first = c;
	mn[parent].last = c;
}
static void link_after(int ref, int c) {   /* ref has a parent */
	int parent = mn[ref].parent;
	mn[c].parent = parent; mn[c].prev = ref; mn[c].next = mn[ref].next;
	if (mn[ref].next >= 0) mn[mn[ref].next].prev = c; else mn[parent].last = c;
	mn[ref].next = c;
}
static void unlink_node(int c) {
	int parent = mn[c].parent;
	if (mn[c].prev >= 0) mn[mn[c].prev].next = mn[c].next; else mn[parent].first = mn[c].next;
	if (mn[c].next >= 0) mn[mn[c].next].prev = mn[c].prev; else mn[parent].last = mn[c].prev;
	mn[c].prev = mn[c].next = -1;
}

/* header at p (n bytes available): returns header length or 0 */
static size_t rd_hdr(const uint8_t *p, size_t n, unsigned *tag, int *nc, int *fwd, int *f16, size_t *len) {
	if (n < 2) return 0;
	*nc = (p[0] >> 6) & 1; *fwd = (p[0] >> 5) & 1;
	if (p[0] & 0x80) { if (n < 4) return 0; *f16 = 1; *tag = ((unsigned)(p[0] & 0x1f) << 8) | p[1]; *len = ((size_t)p[2] << 8) | p[3]; return 4; }
	*f16 = 0; *tag = p[0] & 0x1f; *len = p[1]; return 2;
}
/* parse a complete sequence of TLVs filling exactly n bytes under parent; on failure the tree is rolled back */
static int parse_seq(const uint8_t *p, size_t n, int parent, int depth) {
	int save = mcnt, sfirst = mn[parent].first, slast = mn[parent].last; size_t off = 0;
	while (off < n) {
		unsigned tag; int nc, fwd, f16, c; size_t len, h = rd_hdr(p + off, n - off, &tag, &nc, &fwd, &f16, &len);
		if (h == 0 || len > n - off - h || (c = node_new(parent)) < 0) goto fail;
		mn[c].tag = tag; mn[c].nc = (uint8_t)nc; mn[c].fwd = (uint8_t)fwd; mn[c].f16 = (uint8_t)f16; mn[c].p = p + off + h; mn[c].n = len;
		link_last(parent, c);
		if (len >= 2 && depth < 20 && parse_seq(p + off + h, len, c, depth + 1)) mn[c].leaf = 0;
		off += h + len;
	}
	return 1;
fail:
	mcnt = save; mn[parent].first = sfirst; mn[parent].last = slast;
	if (slast >= 0) mn[slast].next = -1;
	return 0;
}
static int raw_child(int parent, const uint8_t *p, size_t n) {
	int c = node_new(parent); if (c < 0) return -1;
	mn[c].tag = RAW_NODE; mn[c].p = p; mn[c].n = n; link_last(parent, c); return c;
}
/* top level: optional publications file magic, as many well formed TLVs as there are, the rest as raw bytes */
static int parse_top(const uint8_t *p, size_t n) {
	int root; size_t off = 0;
	mcnt = 0; root = node_new(-1); mn[root].tag = RAW_NODE; mn[root].leaf = 0;
	if (n >= 8 && memcmp(p, "KSIPUBLF", 8) == 0) { raw_child(root, p, 8); off = 8; }
	while (off < n) {
		unsigned tag; int nc, fwd, f16, c; size_t len, h = rd_hdr(p + off, n - off, &tag, &nc, &fwd, &f16, &len);
		if (h == 0 || len > n - off - h || (c = node_new(root)) < 0) break;
		mn[c].tag = tag; mn[c].nc = (uint8_t)nc; mn[c].fwd = (uint8_t)fwd; mn[c].f16 = (uint8_t)f16; mn[c].p = p + off + h; mn[c].n = len;
		link_last(root, c);
		if (len >= 2 && parse_seq(p + off + h, len, c, 1)) mn[c].leaf = 0;
		off += h + len;
	}
	if (off < n) raw_child(root, p + off, n - off);
	return root;
}
static size_t hdr_size(const MNode *x, size_t payload) { return (x->f16 || x->tag > 0x1f || payload > 0xff) ? 4 : 2; }
static size_t measure(int i) {
	MNode *x = &mn[i]; size_t pl = 0; int c;
	if (x->leaf) pl = x->n; else for (c = x->first; c >= 0; c = mn[c].next) pl += measure(c);
	x->size = pl + (x->tag == RAW_NODE ? 0 : hdr_size(x, pl));
	return x->size;
}
static size_t payload_size(int i) { size_t pl = 0; int c; if (mn[i].leaf) return mn[i].n; for (c = mn[i].first; c >= 0; c = mn[c].next) pl += mn[c].size; return pl; }
static size_t emit(int i, uint8_t *out) {   /* after measure(i); out has room for mn[i].size */
	MNode *x = &mn[i]; size_t h = 0, pl = payload_size(i), o; int c;
	if (x->tag != RAW_NODE) {
		size_t lenfield = x->badlen >= 0 ? (size_t)x->badlen : pl;
		h = hdr_size(x, pl);
		if (h == 4) { out[0] = (uint8_t)(0x80 | (x->nc << 6) | (x->fwd << 5) | ((x->tag >> 8) & 0x1f)); out[1] = (uint8_t)x->tag; out[2] = (uint8_t)(lenfield >> 8); out[3] = (uint8_t)lenfield; }
		else { out[0] = (uint8_t)((x->nc << 6) | (x->fwd << 5) | (x->tag & 0x1f)); out[1] = (uint8_t)lenfield; }
	}
	x->out_hdr = h; o = h;
	if (x->leaf) { if (pl && x->p) memcpy(out + o, x->p, pl); else if (pl) memset(out + o, 0, pl); o += pl; }
	else for (c = x->first; c >= 0; c = mn[c].next) o += emit(c, out + o);
	return o;
}
static void set_offsets(int i, size_t base) { int c; size_t o; mn[i].out_off = base; o = base + mn[i].out_hdr; if (!mn[i].leaf) for (c = mn[i].first; c >= 0; c = mn[c].next) { set_offsets(c, o); o += mn[c].size; } }

static int clone_tree(int src, int parent) {   /* deep copy; not linked */
	int c, k, d = node_new(parent); if (d < 0) return -1;
	mn[d] = mn[src]; mn[d].parent = parent; mn[d].first = mn[d].last = mn[d].next = mn[d].prev = -1;
	for (c = mn[src].first; c >= 0; c = mn[c].next) { k = clone_tree(c, d); if (k < 0) return -1; link_last(d, k); }
	return d;
}
static int is_desc(int a, int anc) { for (; a >= 0; a = mn[a].parent) if (a == anc) return 1; return 0; }
static int pick_real(void) {   /* a real TLV node (not the root, not raw bytes), still attached */
	int t;
	for (t = 0; t < 40; t++) { int i = 1 + (int)below((size_t)(mcnt - 1)); if (i < mcnt && mn[i].tag != RAW_NODE && is_desc(i, 0)) return i; }
	return -1;
}
static int pick_leaf(void) { int t; for (t = 0; t < 40; t++) { int i = pick_real(); if (i >= 0 && mn[i].leaf) return i; } return -1; }

static const unsigned KSI_TAGS[] = {0x01, 0x02, 0x03, 0x04, 0x05, 0x06, 0x07, 0x08, 0x09, 0x0a, 0x0b, 0x0c, 0x10, 0x11, 0x12, 0x13, 0x14, 0x15, 0x1e, 0x1f,
	0x200, 0x201, 0x202, 0x220, 0x221, 0x300, 0x301, 0x302, 0x320, 0x321, 0x700, 0x701, 0x702, 0x703, 0x704, 0x800, 0x801, 0x802, 0x803, 0x804, 0x805, 0x806, 0x0b00};
static const size_t SIZES[] = {0, 1, 2, 3, 8, 9, 20, 21, 28, 29, 32, 33, 34, 48, 49, 64, 65, 66, 127, 128, 254, 255, 256, 257, 1024, 65535};

static int mutate_tree(size_t MaxSize) {
	int op = (int)below(16), i, j;
	switch (op) {
	case 0: case 1: case 2: {   /* byte level mutation inside one leaf */
		uint8_t *b; size_t cap, n2;
		if ((i = pick_leaf()) < 0) return 0;
		cap = mn[i].n + 40; if ((b = salloc(cap)) == NULL) return 0;
		if (mn[i].n) memcpy(b, mn[i].p, mn[i].n); else b[0] = 0;
		n2 = LLVMFuzzerMutate(b, mn[i].n ? mn[i].n : 1, cap);
		mn[i].p = b; mn[i].n = n2; return 1; }
	case 3: {                   /* resize a leaf */
		uint8_t *b; size_t n2 = SIZES[below(sizeof(SIZES) / sizeof(SIZES[0]))], k; int fill = (int)below(4);
		if ((i = pick_leaf()) < 0) return 0;
		if (below(3) == 0) n2 = mn[i].n + 1; else if (below(3) == 0 && mn[i].n) n2 = mn[i].n - 1;
		if (n2 > MaxSize || (b = salloc(n2 ? n2 : 1)) == NULL) return 0;
		for (k = 0; k < n2; k++) b[k] = k < mn[i].n ? mn[i].p[k] : (fill == 0 ? 0 : fill == 1 ? 0xff : fill == 2 ? (uint8_t)rnd() : (mn[i].n ? mn[i].p[k % mn[i].n] : 1));
		mn[i].p = b; mn[i].n = n2; return 1; }
	case 4: case 5: {           /* retag / flags / header form */
		if ((i = pick_real()) < 0) return 0;
		switch (below(7)) {
			case 0: j = pick_real(); if (j >= 0) mn[i].tag = mn[j].tag; break;
			case 1: mn[i].tag = (mn[i].tag + (below(2) ? 1 : 0x1fff)) & 0x1fff; break;
			case 2: mn[i].tag = (unsigned)below(0x2000); break;
			case 3: mn[i].tag = KSI_TAGS[below(sizeof(KSI_TAGS) / sizeof(KSI_TAGS[0]))]; break;
			case 4: mn[i].nc ^= 1; break;
			case 5: mn[i].fwd ^= 1; break;
			default: mn[i].f16 ^= 1; break;
		}
		return 1; }
	case 6: case 7: {           /* duplicate a sub-tree next to itself or into another container */
		int cp;
		if ((i = pick_real()) < 0 || (cp = clone_tree(i, -1)) < 0) return 0;
		if (below(3) == 0 && (j = pick_real()) >= 0 && !mn[j].leaf && !is_desc(j, cp)) link_last(j, cp); else link_after(i, cp);
		return 1; }
	case 8: {                   /* delete */
		if ((i = pick_real()) < 0) return 0;
		unlink_node(i); mn[i].parent = -2; return 1; }
	case 9: {                   /* swap with the next sibling */
		if ((i = pick_real()) < 0 || (j = mn[i].next) < 0) return 0;
		unlink_node(i); link_after(j, i); return 1; }
	case 10: {                  /* a length field that lies */
		size_t t;
		if ((i = pick_real()) < 0) return 0;
		measure(i); t = payload_size(i);
		switch (below(7)) { case 0: mn[i].badlen = 0; break; case 1: mn[i].badlen = (long)t + 1; break; case 2: mn[i].badlen = t ? (long)t - 1 : 1; break; case 3: mn[i].badlen = 0xffff; break;
			case 4: mn[i].badlen = 0xff; break; case 5: mn[i].badlen = (long)below(0x10000); break; default: mn[i].badlen = (long)t + 2 + (long)below(64); }
		if (!mn[i].f16 && mn[i].tag <= 0x1f && t <= 0xff && mn[i].badlen > 0xff) mn[i].f16 = 1;
		return 1; }
	case 11: {                  /* wrap into a new container, or treat a container as opaque bytes */
		int w;
		if ((i = pick_real()) < 0) return 0;
		if (below(2) && !mn[i].leaf) { uint8_t *b; measure(i); if ((b = salloc(mn[i].size)) == NULL) return 0; emit(i, b); mn[i].p = b + mn[i].out_hdr; mn[i].n = mn[i].size - mn[i].out_hdr; mn[i].leaf = 1; mn[i].first = mn[i].last = -1; return 1; }
		if ((w = node_new(-1)) < 0) return 0;
		mn[w].leaf = 0; mn[w].tag = below(2) ? mn[i].tag : KSI_TAGS[below(sizeof(KSI_TAGS) / sizeof(KSI_TAGS[0]))];
		link_after(i, w); unlink_node(i); link_last(w, i); return 1; }
	case 12: case 13: {         /* make an element empty and the last thing in the input */
		int a;
		if ((i = pick_real()) < 0) return 0;
		mn[i].leaf = 1; mn[i].first = mn[i].last = -1; mn[i].n = below(4) == 0 ? 1 : 0; mn[i].p = (const uint8_t *)"\001";
		for (a = i; a > 0; a = mn[a].parent) while (mn[a].next >= 0) { int d = mn[a].next; unlink_node(d); mn[d].parent = -2; }
		return 1; }
	case 14: {                  /* integer-like leaf values */
		static const uint8_t V[][9] = {{1, 0}, {1, 1}, {1, 0xff}, {2, 0, 1}, {4, 0xff, 0xff, 0xff, 0xff}, {5, 1, 0, 0, 0, 0}, {8, 0xff, 0xff, 0xff, 0xff, 0xff, 0xff, 0xff, 0xff}, {8, 0x80, 0, 0, 0, 0, 0, 0, 0}, {8, 0, 0, 0, 0, 0x53, 0x60, 0x7b, 0x90}};
		size_t k = below(sizeof(V) / sizeof(V[0]));
		if ((i = pick_leaf()) < 0) return 0;
		mn[i].p = &V[k][1]; mn[i].n = V[k][0]; return 1; }
	default: {                  /* imprint-like leaf: algorithm id + digest of right/wrong length */
		static const uint8_t ALG[] = {0, 1, 2, 3, 4, 5, 6, 7, 8, 9, 10, 11, 12, 0x7e, 0xff}; static const uint8_t LEN[] = {20, 32, 20, 0, 48, 64, 0, 28, 32, 48, 64, 32, 0, 0, 0};
		size_t k = below(sizeof(ALG)), n2, q; uint8_t *b;
		if ((i = pick_leaf()) < 0) return 0;
		n2 = 1 + LEN[k]; if (below(4) == 0) n2 = below(2) ? n2 - 1 : n2 + 1; if (below(8) == 0) n2 = below(3);
		if ((b = salloc(n2 ? n2 : 1)) == NULL) return 0;
		for (q = 0; q < n2; q++) b[q] = q == 0 ? ALG[k] : (q - 1 < mn[i].n ? mn[i].p[q - 1] : (uint8_t)rnd());
		mn[i].p = b; mn[i].n = n2; return 1; }
	}
}

/* ---- text entry points */
static const char *const TOK_URI[] = {"http://", "https://", "ksi://", "ksi+http://", "ksi+https://", "ksi+tcp://", "file://", "FILE://", "File:///", "tcp://", "://", ":", "@", "/", "//", "?", "#", "&", "=", "%", "%00", "%zz", "[", "]", "[::1]", "user:pass@", "localhost", "127.0.0.1", ":0", ":80", ":65535", ":65536", ":99999999999", ":-1", "..", "a.b", " "};
static const char *const TOK_HASH[] = {"SHA", "SHA-", "SHA1", "SHA-1", "SHA2", "SHA-2", "SHA2-", "SHA-256", "SHA256", "sha2_256", "SHA-384", "SHA-512", "SHA3", "SHA3-", "SHA3-224", "SHA3-256", "SHA3-384", "SHA3-512", "sha3_512", "RIPEMD", "RIPEMD-160", "RIPEMD160", "SM3", "SM-3", "DEFAULT", "default", "-", "_", ",", "256", "512", "3", "X"};
static const char *const TOK_PUB[] = {"AAAAAA-", "CTJR3I-", "AANBWU-", "-", "=", "======", "A", "7", "2", "0", "1", "8", "9", "a", "z", "AAAAAA-CTJR3I-AANBWU-RY76YF-7TH2M5-KGEZVA-WLLRGD-3GKYBG-AM5WWV-4MCLSP-XPRDDI-UFMHBA", "AAAAAA", "BAAAAA", " ", "\n"};
static size_t mutate_text(uint8_t *d, size_t n, size_t max, int e) {
	const char *const *tk; size_t ntk, l, pos; const char *t;
	if (e == E_URI) { tk = TOK_URI; ntk = sizeof(TOK_URI) / sizeof(TOK_URI[0]); } else if (e == E_HASHNAME) { tk = TOK_HASH; ntk = sizeof(TOK_HASH) / sizeof(TOK_HASH[0]); } else { tk = TOK_PUB; ntk = sizeof(TOK_PUB) / sizeof(TOK_PUB[0]); }
	t = tk[below(ntk)]; l = strlen(t); pos = below(n + 1);
	switch (below(5)) {
		case 0: case 1: if (n + l > max) return n; memmove(d + pos + l, d + pos, n - pos); memcpy(d + pos, t, l); return n + l;                    /* insert */
		case 2: if (l > max) return n; memcpy(d, t, l); if (n < l) n = l; return n;                                                                    /* overwrite the start */
		case 3: if (pos + l > max) return n; memcpy(d + pos, t, l); return pos + l > n ? pos + l : n;                                                  /* overwrite anywhere */
		default: if (n) { size_t a = below(n), k = 1 + below(n - a); memmove(d + a, d + a + k, n - a - k); return n - k; } return n;                  /* delete a run */
	}
}

static void new_selector(uint8_t *Data) {
	switch (below(4)) {
		case 0: Data[0] = (uint8_t)rnd(); break;
		case 1: Data[0] ^= (uint8_t)(1u << (4 + below(4))); break;
		case 2: Data[0] = (uint8_t)((Data[0] & 0xf0) | below(16)); break;
		default: Data[0] = (uint8_t)((Data[0] & 0x0f) | (below(16) << 4)); break;
	}
}

static uint8_t outbuf[C12_MAX_INPUT + 64];

size_t LLVMFuzzerCustomMutator(uint8_t *Data, size_t Size, size_t MaxSize, unsigned int Seed) {
	int e, root, tries; size_t total, r;
	if (c12_stat == NULL) c12_setup();
	rs = ((uint64_t)Seed << 17) ^ 0xC12C12C12ull ^ Size;
	if (MaxSize > C12_MAX_INPUT) MaxSize = C12_MAX_INPUT;
	if (Size < 1) { if (MaxSize < 1) return 0; Data[0] = (uint8_t)rnd(); return 1; }
	if (Size > MaxSize) Size = MaxSize;
	r = below(100);
	if (r < 6) { new_selector(Data); if (below(2)) return Size; }
	e = c12_entry_of(Data[0]);
	if (c12_entry_is_text(e)) {
		if (below(2)) { c12_stat[ST_MUT_TEXT]++; return 1 + mutate_text(Data + 1, Size - 1, MaxSize - 1, e); }
		c12_stat[ST_MUT_PLAIN]++;
		return 1 + LLVMFuzzerMutate(Data + 1, Size - 1, MaxSize - 1);
	}
	if (r < 35 || Size < 3) {
		c12_stat[ST_MUT_PLAIN]++;
		if (below(8) == 0) return LLVMFuzzerMutate(Data, Size, MaxSize);      /* selector included */
		return 1 + LLVMFuzzerMutate(Data + 1, Size - 1, MaxSize - 1);
	}
	scratch_used = 0;
	root = parse_top(Data + 1, Size - 1);
	if (mcnt < 2 || (mcnt == 2 && mn[1].tag == RAW_NODE)) { c12_stat[ST_MUT_PLAIN]++; return 1 + LLVMFuzzerMutate(Data + 1, Size - 1, MaxSize - 1); }
	for (tries = 0; tries < 8; tries++) if (mutate_tree(MaxSize)) break;
	if (below(5) == 0) mutate_tree(MaxSize);                                  /* sometimes two edits */
	total = measure(root);
	if (tries == 8 || total + 1 > MaxSize || total > C12_MAX_INPUT - 1) { c12_stat[ST_MUT_PLAIN]++; return 1 + LLVMFuzzerMutate(Data + 1, Size - 1, MaxSize - 1); }
	emit(root, outbuf); set_offsets(root, 0);
	if (below(12) == 0) {   /* cut inside or right behind a header */
		int i = pick_real();
		if (i >= 0) { size_t cut = mn[i].out_off + below(mn[i].out_hdr + 2); if (cut < total) total = cut; }
	}
	memcpy(Data + 1, outbuf, total);
	c12_stat[ST_MUT_STRUCT]++;
	return 1 + total;
}

/* splice: a random sub-tree of the second input is inserted into (or replaces a node of) the first */
size_t LLVMFuzzerCustomCrossOver(const uint8_t *Data1, size_t Size1, const uint8_t *Data2, size_t Size2, uint8_t *Out, size_t MaxOutSize, unsigned int Seed) {
	int root, i, j, r; size_t total; uint8_t *sub; size_t subn;
	if (c12_stat == NULL) c12_setup();
	rs = ((uint64_t)Seed << 13) ^ 0x5eed ^ Size1 ^ (Size2 << 20);
	if (MaxOutSize > C12_MAX_INPUT) MaxOutSize = C12_MAX_INPUT;
	if (Size1 < 3 || Size2 < 3 || Size1 > MaxOutSize || c12_entry_is_text(c12_entry_of(Data1[0]))) goto plain;
	scratch_used = 0;
	parse_top(Data2 + 1, Size2 - 1 > C12_MAX_INPUT - 1 ? C12_MAX_INPUT - 1 : Size2 - 1);
	if (mcnt < 2 || (i = pick_real()) < 0) goto plain;
	measure(i);
	if ((sub = salloc(mn[i].size ? mn[i].size : 1)) == NULL) goto plain;
	subn = emit(i, sub);
	root = parse_top(Data1 + 1, Size1 - 1);
	if (mcnt < 2 || (j = pick_real()) < 0 || (r = node_new(-1)) < 0) goto plain;
	mn[r].tag = RAW_NODE; mn[r].p = sub; mn[r].n = subn;
	if (!mn[j].leaf && below(2)) link_last(j, r);
	else { link_after(j, r); if (below(2)) { unlink_node(j); mn[j].parent = -2; } }
	total = measure(root);
	if (total + 1 > MaxOutSize) goto plain;
	Out[0] = below(4) ? Data1[0] : Data2[0];
	emit(root, outbuf); memcpy(Out + 1, outbuf, total);
	c12_stat[ST_MUT_CROSS]++;
	return 1 + total;
plain:
	if (Size1 > MaxOutSize) Size1 = MaxOutSize;
	memcpy(Out, Data1, Size1);
	return Size1;
}
