/* C09: TLV encoding round-trips and never emits or accepts a mis-sized element.
 *
 * Drives the three TLV codecs of libksi (tree codec tlv.c, element codec tlv_element.c, header reader fast_tlv.c)
 * against a reference codec written here from DESIGN.md Appendix A (independent of libksi's code):
 *   first byte: 0x80 = 16-bit form, 0x40 = non-critical, 0x20 = forward, low 5 bits = tag (high bits of a 13-bit tag)
 *   8-bit form  : hdr, len8, payload            16-bit form : hdr, tag_lo, len_hi, len_lo, payload
 *   canonical form: 8-bit iff tag <= 0x1f and length <= 0xff; a composite's payload is exactly tiled by its children.
 *
 * usage: c09_tlv <gen> <what-mask> <seed> <shard> <nshards> <count>
 *   gen  : prefix | leaf | trees | big | empty | witness
 *   what : 1 tree codec serialisation, 2 element codec serialisation with n >= needed (+detach), 4 element codec
 *          serialisation with n < needed, 8 parsers/readers (round trip, truncations, length perturbations),
 *          16 stream readers (FILE / socket), 32 element codec edit operations (remove / set)
 * Every sub-section is its own process so that a sanitizer abort in one does not hide the others.
 */
#include <ksi/ksi.h>
#include <ksi/tlv.h>
#include <ksi/fast_tlv.h>
#include <ksi/tlv_element.h>
#include "vh.h"
#include <sys/socket.h>
#include <errno.h>
#include <sanitizer/asan_interface.h>

enum { W_TREE_SER = 1, W_EL_FIT = 2, W_EL_SHORT = 4, W_PARSE = 8, W_STREAM = 16, W_MUTATE = 32 };
#define MAXD 9

static KSI_CTX *ctx;
static unsigned what;
static int empty_inputs; /* zero-length inputs are exercised by their own process (gen "empty") only */

static void die(const char *msg) { fprintf(stderr, "c09_tlv harness failure: %s (case: %.600s)\n", msg, vh_case_get()); exit(3); }

/* ------------------------------------------------------------------ "current case" note with a cheap suffix */
static size_t case_base;
static void case_set(const char *s) { vh_case("%s", s); case_base = strlen(vh_case_get()); }
static void case_sub(const char *fmt, ...) {
	va_list va; char *b = (char *)vh_case_get();
	if (case_base > VH_CASE_SZ - 1500) return;
	va_start(va, fmt); vsnprintf(b + case_base, 1400, fmt, va); va_end(va);
}

/* ------------------------------------------------------------------ reference model */
typedef struct Node Node;
struct Node {
	unsigned tag; int nc, fwd, comp;
	unsigned char *pl; size_t pln;      /* leaf payload */
	Node **kid; size_t nk;
	/* measured */
	size_t clen, elen; int hl, fits, kids_fit;
};
static Node *node_new(unsigned tag, int nc, int fwd, int comp) {
	Node *n = calloc(1, sizeof *n); n->tag = tag; n->nc = nc; n->fwd = fwd; n->comp = comp; return n;
}
static Node *leaf_new(unsigned tag, int nc, int fwd, const unsigned char *p, size_t len) {
	Node *n = node_new(tag, nc, fwd, 0); n->pl = malloc(len ? len : 1); if (len) memcpy(n->pl, p, len); n->pln = len; return n;
}
static Node *leaf_pat(unsigned tag, int nc, int fwd, size_t len) {
	Node *n = node_new(tag, nc, fwd, 0); size_t i; n->pl = malloc(len ? len : 1); n->pln = len;
	for (i = 0; i < len; i++) n->pl[i] = (unsigned char)(i * 7 + len);
	return n;
}
static void node_add(Node *p, Node *c) { p->kid = realloc(p->kid, (p->nk + 1) * sizeof *p->kid); p->kid[p->nk++] = c; }
static void node_free(Node *n) { size_t i; if (!n) return; for (i = 0; i < n->nk; i++) node_free(n->kid[i]); free(n->kid); free(n->pl); free(n); }
static void measure(Node *n) {
	size_t i; n->kids_fit = 1;
	if (n->comp) { n->clen = 0; for (i = 0; i < n->nk; i++) { measure(n->kid[i]); n->clen += n->kid[i]->elen; if (!n->kid[i]->fits) n->kids_fit = 0; } }
	else n->clen = n->pln;
	n->hl = (n->tag <= 0x1f && n->clen <= 0xff) ? 2 : 4;
	n->elen = n->hl + n->clen;
	n->fits = n->kids_fit && n->clen <= 0xffff;
}
/* content size of the (first) element that does not fit, 0 if none */
static size_t over_size(const Node *n) {
	size_t i, r;
	for (i = 0; i < n->nk; i++) if ((r = over_size(n->kid[i])) != 0) return r;
	return n->clen > 0xffff ? n->clen : 0;
}
#define MAXHDR 4096
static size_t hdr_off[MAXHDR]; static int hdr_form[MAXHDR]; static size_t nhdr;
static unsigned char *enc(const Node *n, unsigned char *o, const unsigned char *base);
static unsigned char *enc_content(const Node *n, unsigned char *o, const unsigned char *base) {
	size_t i;
	if (!n->comp) { if (n->pln) memcpy(o, n->pl, n->pln); return o + n->pln; }
	for (i = 0; i < n->nk; i++) o = enc(n->kid[i], o, base);
	return o;
}
static unsigned char *enc(const Node *n, unsigned char *o, const unsigned char *base) {
	unsigned char f = (unsigned char)((n->nc ? 0x40 : 0) | (n->fwd ? 0x20 : 0));
	if (!n->fits) die("reference encoder called for an element that does not fit");
	if (base && nhdr < MAXHDR) { hdr_off[nhdr] = (size_t)(o - base); hdr_form[nhdr] = n->hl; nhdr++; }
	if (n->hl == 2) { *o++ = (unsigned char)(f | n->tag); *o++ = (unsigned char)n->clen; }
	else { *o++ = (unsigned char)(0x80 | f | (n->tag >> 8)); *o++ = (unsigned char)(n->tag & 0xff); *o++ = (unsigned char)(n->clen >> 8); *o++ = (unsigned char)(n->clen & 0xff); }
	return enc_content(n, o, base);
}

typedef struct { unsigned tag; int nc, fwd, canon; size_t hl, dl; } Hdr;
static int ref_hdr(const unsigned char *p, size_t n, Hdr *h) {
	if (n < 1) return -1;
	h->nc = (p[0] >> 6) & 1; h->fwd = (p[0] >> 5) & 1;
	if (p[0] & 0x80) {
		if (n < 4) return -1;
		h->hl = 4; h->tag = ((unsigned)(p[0] & 0x1f) << 8) | p[1]; h->dl = ((size_t)p[2] << 8) | p[3];
		h->canon = !(h->tag <= 0x1f && h->dl <= 0xff);
	} else {
		if (n < 2) return -1;
		h->hl = 2; h->tag = p[0] & 0x1f; h->dl = p[1]; h->canon = 1;
	}
	return 0;
}
static int ref_prefix(const unsigned char *p, size_t n, Hdr *h) { return (ref_hdr(p, n, h) == 0 && n >= h->hl + h->dl) ? 0 : -1; }
static long ref_tile(const unsigned char *p, size_t n, int *allcanon) {
	long k = 0; *allcanon = 1;
	while (n) { Hdr h; if (ref_prefix(p, n, &h)) return -1; if (!h.canon) *allcanon = 0; p += h.hl + h.dl; n -= h.hl + h.dl; k++; }
	return k;
}

/* ------------------------------------------------------------------ descriptions for replay */
static void sapp(char *b, size_t cap, size_t *o, const char *fmt, ...) {
	va_list va; int r; if (*o + 1 >= cap) return;
	va_start(va, fmt); r = vsnprintf(b + *o, cap - *o, fmt, va); va_end(va);
	if (r > 0) { *o += (size_t)r; if (*o >= cap) *o = cap - 1; }
}
static void node_str(const Node *n, char *b, size_t cap, size_t *o) {
	size_t i;
	sapp(b, cap, o, "{0x%x%s%s", n->tag, n->nc ? " N" : "", n->fwd ? " F" : "");
	if (n->comp) { sapp(b, cap, o, ":"); for (i = 0; i < n->nk; i++) node_str(n->kid[i], b, cap, o); }
	else {
		sapp(b, cap, o, " raw[%zu]=", n->pln);
		for (i = 0; i < n->pln && i < 20; i++) sapp(b, cap, o, "%02x", n->pl[i]);
		if (n->pln > 20) sapp(b, cap, o, "..");
	}
	sapp(b, cap, o, "}");
}
static char tdesc[6000];     /* tree text + encoding of the tree currently under test */
static void describe(const Node *t, const unsigned char *E) {
	size_t o = 0; tdesc[0] = 0;
	sapp(tdesc, sizeof tdesc, &o, "tree=");
	node_str(t, tdesc, 2600, &o);
	sapp(tdesc, sizeof tdesc, &o, " content=%zu", t->clen);
	if (E && t->elen <= 700) { char *hx = vh_hex(E, t->elen); sapp(tdesc, sizeof tdesc, &o, " enc=%s", hx); free(hx); }
	else if (t->elen > 700) sapp(tdesc, sizeof tdesc, &o, " (payloads longer than 20 bytes: byte i = (i*7+len)&0xff)");
}
static const char *optname(int opt) {
	switch (opt & 3) { case 0: return "0"; case KSI_TLV_OPT_NO_HEADER: return "NO_HEADER"; case KSI_TLV_OPT_NO_MOVE: return "NO_MOVE"; default: return "NO_HEADER|NO_MOVE"; }
}

/* ------------------------------------------------------------------ exactly sized output buffers
 * The block ends exactly at buf + n (ASan red zone behind it).  In front of buf lies a manually poisoned guard at least as long as
 * the serialisation is: the right-to-left serialisers can only run off the FRONT of a too small buffer, by at most `reach` bytes,
 * and a poisoned guard makes ASan classify that always the same way (use-after-poison) instead of depending on what happens to
 * live in front of the block. */
static unsigned char *out_base; static size_t out_guard;
static unsigned char *out_get(size_t n, size_t reach) {
	out_guard = (reach + 64 + 7) & ~(size_t)7;
	out_base = malloc(out_guard + n); if (!out_base) die("oom");
	if (n) memset(out_base + out_guard, 0xAA, n);
	ASAN_POISON_MEMORY_REGION(out_base, out_guard);
	return out_base + out_guard;
}
static void out_put(void) { ASAN_UNPOISON_MEMORY_REGION(out_base, out_guard); free(out_base); out_base = NULL; }

/* ------------------------------------------------------------------ judging one serialisation attempt */
static void judge(const char *group, const char *entry, int opt, const unsigned char *exp, size_t explen, int must_refuse, size_t over,
		size_t n, int rc, const unsigned char *out, size_t len) {
	char key[160], rep[6400];
	vh_eval++;
	snprintf(rep, sizeof rep, "%s entry=%s opt=%s buffer_size=%zu", tdesc, entry, optname(opt), n);
	if (must_refuse) {
		if (rc == KSI_OK) {
			snprintf(key, sizeof key, "%s:oversize-content-%s:accepted", group, over == 65536 ? "65536" : "gt65536");
			if (out && len >= 4 && len <= n && !(opt & KSI_TLV_OPT_NO_HEADER))
				vh_viol(key, rep, "%s returned KSI_OK (len=%zu) for a tree holding an element with %zu content bytes (> 65535); top-level header written: %02x %02x %02x %02x (length field %u)", entry, len, over, out[0], out[1], out[2], out[3], (unsigned)(out[2] << 8 | out[3]));
			else vh_viol(key, rep, "%s returned KSI_OK (len=%zu) for a tree holding an element with %zu content bytes (> 65535)", entry, len, over);
		} else vh_count("oversize_refused", 1);
		return;
	}
	if (n < explen) {
		if (rc == KSI_OK) { snprintf(key, sizeof key, "%s:short-buffer:accepted", group); vh_viol(key, rep, "%s returned KSI_OK (len=%zu) with a buffer of %zu bytes, %zu needed", entry, len, n, explen); }
		else vh_count("short_buffer_refused", 1);
		return;
	}
	if (rc != KSI_OK) {
		snprintf(key, sizeof key, "%s:%s-buffer:%s:refused", group, n == explen ? "exact" : "larger", (opt & KSI_TLV_OPT_NO_HEADER) ? "nohdr" : "hdr");
		vh_viol(key, rep, "%s failed (res=0x%x) although the buffer (%zu) holds the %zu bytes needed", entry, rc, n, explen);
		return;
	}
	if (len != explen) { snprintf(key, sizeof key, "%s:wrong-length", group); vh_viol(key, rep, "%s reports length %zu, reference encoding has %zu", entry, len, explen); return; }
	if (len && memcmp(out, exp, len) != 0) {
		size_t i = 0; while (i < len && out[i] == exp[i]) i++;
		snprintf(key, sizeof key, "%s:%s", group, (!(opt & KSI_TLV_OPT_NO_HEADER) && i == 0 && ((out[0] ^ exp[0]) & 0x80)) ? "wrong-header-form" : "wrong-bytes");
		vh_viol(key, rep, "%s output differs from the reference encoding at byte %zu (got %02x, expected %02x)", entry, i, out[i], exp[i]);
		return;
	}
	vh_count((n == explen) ? "serialized_exact_buffer_ok" : "serialized_larger_buffer_ok", 1);
}

/* buffer sizes to try */
static size_t sz[1400]; static size_t nsz;
static void add_sz(size_t v, size_t needed, int lo, int hi) {
	size_t i; if (v > (1u << 20)) return;
	if ((v < needed && !lo) || (v >= needed && !hi)) return;
	for (i = 0; i < nsz; i++) if (sz[i] == v) return;
	if (nsz < 1400) sz[nsz++] = v;
}
static void make_sizes(size_t needed, int lo, int hi) {
	size_t v; long d;
	nsz = 0;
	if (needed <= 700) { for (v = 0; v <= needed + 8; v++) add_sz(v, needed, lo, hi); return; }
	for (v = 0; v <= 6; v++) add_sz(v, needed, lo, hi);
	for (v = 254; v <= 262; v++) add_sz(v, needed, lo, hi);
	for (v = 65533; v <= 65542; v++) add_sz(v, needed, lo, hi);
	for (d = -6; d <= 8; d++) if ((long)needed + d >= 0) add_sz((size_t)((long)needed + d), needed, lo, hi);
	add_sz(needed / 2, needed, lo, hi); add_sz(needed - 4096, needed, lo, hi); add_sz(needed + 4096, needed, lo, hi);
}

/* ------------------------------------------------------------------ tree codec: building and serialising */
static KSI_TLV *build_tlv(const Node *n) {
	KSI_TLV *t = NULL; size_t i;
	if (KSI_TLV_new(ctx, n->tag, n->nc, n->fwd, &t) != KSI_OK || !t) die("KSI_TLV_new");
	if (!n->comp) {
		if (n->pln || vh_below(2)) {
			unsigned char *p = vh_exact(n->pl, n->pln);
			int rc = KSI_TLV_setRawValue(t, p, n->pln);
			vh_exact_free(p, n->pln);
			if (rc != KSI_OK) {
				if (n->pln <= 0xffff) { char r[64]; snprintf(r, sizeof r, "tag=0x%x len=%zu", n->tag, n->pln); vh_viol("tlv.setRawValue:fitting-payload:refused", r, "KSI_TLV_setRawValue refuses a payload of %zu bytes (res=0x%x)", n->pln, rc); }
				else vh_count("setRawValue_oversize_refused", 1);
				KSI_TLV_free(t); return NULL;
			}
			if (n->pln > 0xffff) vh_count("setRawValue_oversize_stored", 1);
		}
	} else for (i = 0; i < n->nk; i++) {
		KSI_TLV *c = build_tlv(n->kid[i]);
		if (!c) { KSI_TLV_free(t); return NULL; }
		if (KSI_TLV_appendNestedTlv(t, c) != KSI_OK) die("appendNestedTlv");
	}
	return t;
}

static void tlv_deep(KSI_TLV *tlv, const unsigned char *el, size_t ellen, int depth, const char *xrep);

/* full = 4 spare bytes + content; E = full + 4 - hl when the tree fits */
static void tlv_serialize_checks(const Node *t, const unsigned char *E, const unsigned char *content) {
	KSI_TLV *tlv = build_tlv(t); int v; size_t over = over_size(t);
	if (!tlv) return;
	/* KSI_TLV_serialize (own allocation) */
	{
		unsigned char *b = NULL; size_t l = 0; int rc;
		case_sub(" entry=KSI_TLV_serialize");
		rc = KSI_TLV_serialize(tlv, &b, &l);
		judge("tlv.serialize", "KSI_TLV_serialize", 0, E, t->elen, !t->fits, over, (size_t)1 << 19, rc, rc == KSI_OK ? b : NULL, l);
		if (rc == KSI_OK) KSI_free(b);
	}
	/* caller buffers of every size */
	for (v = 0; v < 6; v++) {
		static const int opts[6] = {0, 0, KSI_TLV_OPT_NO_HEADER, KSI_TLV_OPT_NO_HEADER, KSI_TLV_OPT_NO_MOVE, KSI_TLV_OPT_NO_HEADER | KSI_TLV_OPT_NO_MOVE};
		static const char *names[6] = {"KSI_TLV_serialize_ex", "KSI_TLV_writeBytes", "KSI_TLV_writeBytes", "KSI_TLV_serializePayload", "KSI_TLV_writeBytes", "KSI_TLV_writeBytes"};
		int opt = opts[v], refuse = (opt & KSI_TLV_OPT_NO_HEADER) ? !t->kids_fit : !t->fits; size_t k;
		const unsigned char *exp = (opt & KSI_TLV_OPT_NO_HEADER) ? content : E; size_t explen = (opt & KSI_TLV_OPT_NO_HEADER) ? t->clen : t->elen;
		if (v == 1 && t->elen > 64 && vh_below(4)) continue; /* same code path as v == 0 */
		make_sizes(explen, 1, 1);
		for (k = 0; k < nsz; k++) {
			size_t n = sz[k], l = (size_t)-1; unsigned char *buf = out_get(n, explen); int rc;
			case_sub(" entry=%s opt=%d n=%zu", names[v], opt, n);
			if (v == 0) rc = KSI_TLV_serialize_ex(tlv, buf, n, &l);
			else if (v == 3) { l = n; rc = KSI_TLV_serializePayload(tlv, buf, &l); }
			else rc = KSI_TLV_writeBytes(tlv, buf, n, &l, opt);
			judge("tlv.serialize", names[v], opt, exp, explen, refuse, over, n, rc, (rc == KSI_OK && l <= n) ? ((opt & KSI_TLV_OPT_NO_MOVE) ? buf + n - l : buf) : NULL, l);
			if (rc == KSI_OK && l > n) vh_viol("tlv.serialize:length-exceeds-buffer", tdesc, "%s reports %zu bytes written into a buffer of %zu", names[v], l, n);
			out_put();
		}
		/* length query with a NULL buffer: if it answers, the answer must be the reference length */
		{
			size_t l = (size_t)-1; int rc = KSI_TLV_writeBytes(tlv, NULL, 0, &l, opt);
			vh_eval++;
			if (rc == KSI_OK && !refuse && l != explen) vh_viol("tlv.serialize:null-buffer-length-query:wrong-length", tdesc, "KSI_TLV_writeBytes(NULL,0,opt=%s) answers %zu, reference length is %zu", optname(opt), l, explen);
			else if (rc != KSI_OK && !refuse) vh_viol("tlv.serialize:null-buffer-length-query:refused", tdesc, "KSI_TLV_writeBytes(NULL,0,opt=%s) of a tree that fits (reference length %zu) is refused: rc=0x%x", optname(opt), explen, rc);
			else if (rc == KSI_OK && refuse) vh_viol("tlv.serialize:null-buffer-length-query:oversize-answered", tdesc, "KSI_TLV_writeBytes(NULL,0,opt=%s) of a tree that does not fit the length field answers %zu", optname(opt), l);
			else vh_count(rc == KSI_OK ? "null_query_ok" : "null_query_refused", 1);
		}
	}
	/* clone = serialize + parse + re-expansion */
	{
		KSI_TLV *cl = NULL; int rc;
		case_sub(" entry=KSI_TLV_clone");
		rc = KSI_TLV_clone(tlv, &cl);
		vh_eval++;
		if (!t->fits) {
			if (rc == KSI_OK) { char key[96]; snprintf(key, sizeof key, "tlv.clone:oversize-content-%s:accepted", over == 65536 ? "65536" : "gt65536"); vh_viol(key, tdesc, "KSI_TLV_clone succeeds for a tree holding an element with %zu content bytes", over); }
			else vh_count("oversize_refused", 1);
		} else if (rc != KSI_OK || !cl) vh_viol("tlv.clone:fitting-tree:refused", tdesc, "KSI_TLV_clone failed res=0x%x", rc);
		else {
			unsigned char *b = NULL; size_t l = 0;
			rc = KSI_TLV_serialize(cl, &b, &l);
			judge("tlv.clone", "KSI_TLV_clone+KSI_TLV_serialize", 0, E, t->elen, 0, 0, (size_t)1 << 19, rc, rc == KSI_OK ? b : NULL, l);
			if (rc == KSI_OK) KSI_free(b);
			tlv_deep(cl, E, t->elen, 0, tdesc);
			vh_count("clones_ok", 1);
		}
		if (cl) KSI_TLV_free(cl);
	}
	/* payload getter on the built tree (collapses a composite into raw form), then serialise again */
	if (t->clen <= 0xffff && t->kids_fit) {
		const unsigned char *p = NULL; size_t l = 0; int rc;
		case_sub(" entry=KSI_TLV_getRawValue");
		rc = KSI_TLV_getRawValue(tlv, &p, &l);
		vh_eval++;
		if (rc != KSI_OK) vh_viol("tlv.getRawValue:fitting-tree:refused", tdesc, "KSI_TLV_getRawValue failed res=0x%x on a built tree", rc);
		else if (l != t->clen || (l && memcmp(p, content, l))) vh_viol("tlv.getRawValue:wrong-payload", tdesc, "KSI_TLV_getRawValue gives %zu bytes, reference content has %zu (or bytes differ)", l, t->clen);
		else {
			size_t n = t->elen, l2 = 0; unsigned char *buf = out_get(n, n);
			rc = KSI_TLV_serialize_ex(tlv, buf, n, &l2);
			judge("tlv.serialize", "KSI_TLV_getRawValue+KSI_TLV_serialize_ex", 0, E, t->elen, 0, 0, n, rc, buf, l2);
			out_put();
			vh_count("getRawValue_ok", 1);
		}
	}
	/* the payload of the built element (leaf, expanded composite, or composite collapsed by the getter above) is replaced by a raw value of
	 * 0, 1, 255, 256 or a random number of bytes: the element then encodes as its header + exactly that value, whatever it held before */
	if (t->fits) {
		static const size_t lens[6] = {0, 1, 255, 256, 0, 0}; static unsigned turn; size_t k = lens[turn % 6], n, l2 = 0, i; unsigned char *pv, *buf; Node leaf; int rc;
		unsigned char exp[4 + 1024];
		if (turn++ % 6 >= 4) k = vh_below(600);
		if ((turn / 6) % 3 != 0) { KSI_TLV_free(tlv); tlv = build_tlv(t); if (!tlv) return; }     /* two of three times on a freshly built (still expanded) element */
		pv = malloc(k + 1); for (i = 0; i < k; i++) pv[i] = (unsigned char)(0xA5 ^ i);
		{ unsigned char *px = vh_exact(pv, k); case_sub(" entry=KSI_TLV_setRawValue(%zu)-on-built-element", k); rc = KSI_TLV_setRawValue(tlv, k ? px : (vh_below(2) ? px : NULL), k); vh_exact_free(px, k); }
		vh_eval++;
		if (rc != KSI_OK) vh_viol("tlv.setRawValue:overwrite:refused", tdesc, "KSI_TLV_setRawValue(%zu bytes) on a built element failed res=0x%x", k, rc);
		else {
			memset(&leaf, 0, sizeof leaf); leaf.tag = t->tag; leaf.nc = t->nc; leaf.fwd = t->fwd; leaf.pl = pv; leaf.pln = k; measure(&leaf);
			n = leaf.elen; enc(&leaf, exp, NULL);
			buf = out_get(n + 8, n);
			rc = KSI_TLV_serialize_ex(tlv, buf, n + 8, &l2);
			if (rc != KSI_OK || l2 != n || memcmp(buf, exp, n)) {
				char key[96]; snprintf(key, sizeof key, "tlv.setRawValue:overwrite-%s:%s-value:old-content-survives-or-wrong-bytes", t->comp ? "composite" : "leaf", k ? "nonempty" : "empty");
				vh_viol(key, tdesc, "after KSI_TLV_setRawValue(%zu bytes) the element serializes to %zu bytes (res=0x%x), expected %zu bytes: header + the new value", k, l2, rc, n);
			} else {
				const unsigned char *p2 = NULL; size_t l3 = 77;
				rc = KSI_TLV_getRawValue(tlv, &p2, &l3);
				if (rc != KSI_OK || l3 != k || (k && memcmp(p2, pv, k))) vh_viol("tlv.setRawValue:overwrite:getRawValue-differs", tdesc, "KSI_TLV_getRawValue after KSI_TLV_setRawValue(%zu bytes): res=0x%x, %zu bytes", k, rc, l3);
				else vh_count(t->comp ? "setRawValue_overwrites_composite" : "setRawValue_overwrites_leaf", 1);
			}
			out_put();
		}
		free(pv);
	}
	KSI_TLV_free(tlv);
}

/* ------------------------------------------------------------------ element codec: building and serialising */
static struct { unsigned char *p; size_t n; } arena[8192]; static size_t narena;
static unsigned char *arena_exact(const unsigned char *p, size_t n) {
	unsigned char *q = vh_exact(p, n);
	if (narena >= 8192) die("arena full");
	arena[narena].p = q; arena[narena].n = n; narena++; return q;
}
static void arena_free(void) { while (narena) { narena--; vh_exact_free(arena[narena].p, arena[narena].n); } }

static KSI_TlvElement *build_el(const Node *n) {
	KSI_TlvElement *e = NULL; size_t i;
	if (!n->comp && n->fits && vh_below(2)) {
		/* leaf given as its own (reference) encoding, the way parsed elements look */
		unsigned char *tmp = malloc(n->elen), *q;
		enc(n, tmp, NULL); q = arena_exact(tmp, n->elen); free(tmp);
		if (KSI_TlvElement_parse(q, n->elen, &e) != KSI_OK || !e) { vh_viol("element.parse:canonical-leaf:refused", tdesc, "KSI_TlvElement_parse refuses the canonical encoding of a leaf (tag 0x%x, %zu bytes)", n->tag, n->pln); return NULL; }
		return e;
	}
	if (KSI_TlvElement_new(&e) != KSI_OK || !e) die("KSI_TlvElement_new");
	e->ftlv.tag = n->tag; e->ftlv.is_nc = n->nc; e->ftlv.is_fwd = n->fwd;
	if (!n->comp) {
		/* the library's own idiom (KSI_TlvElement_setOctetString): ptr = payload, hdr_len = 0 */
		e->ptr = arena_exact(n->pl, n->pln); e->ftlv.dat_len = n->pln; e->ftlv.hdr_len = 0;
	} else for (i = 0; i < n->nk; i++) {
		KSI_TlvElement *c = build_el(n->kid[i]);
		if (!c) { KSI_TlvElement_free(e); return NULL; }
		if (KSI_TlvElement_appendElement(e, c) != KSI_OK) die("appendElement");
		KSI_TlvElement_free(c);
	}
	return e;
}

static void el_deep(KSI_TlvElement *el, const unsigned char *ref, size_t avail, int depth, const char *xrep);

static void el_serialize_checks(const Node *t, const unsigned char *E, const unsigned char *content, int lo, int hi) {
	KSI_TlvElement *el = build_el(t); int v; size_t over = over_size(t);
	if (!el) { arena_free(); return; }
	for (v = 0; v < 4; v++) {
		int opt = v, refuse = (opt & KSI_TLV_OPT_NO_HEADER) ? !t->kids_fit : !t->fits; size_t k;
		const unsigned char *exp = (opt & KSI_TLV_OPT_NO_HEADER) ? content : E; size_t explen = (opt & KSI_TLV_OPT_NO_HEADER) ? t->clen : t->elen;
		make_sizes(explen, lo, hi);
		for (k = 0; k < nsz; k++) {
			size_t n = sz[k], l = (size_t)-1; unsigned char *buf = out_get(n, explen); int rc;
			case_sub(" entry=KSI_TlvElement_serialize opt=%d n=%zu", opt, n);
			rc = KSI_TlvElement_serialize(el, buf, n, &l, opt);
			judge("element.serialize", "KSI_TlvElement_serialize", opt, exp, explen, refuse, over, n, rc, (rc == KSI_OK && l <= n) ? ((opt & KSI_TLV_OPT_NO_MOVE) ? buf + n - l : buf) : NULL, l);
			if (rc == KSI_OK && l > n) vh_viol("element.serialize:length-exceeds-buffer", tdesc, "KSI_TlvElement_serialize reports %zu bytes written into a buffer of %zu", l, n);
			out_put();
		}
		if (hi) {
			size_t l = (size_t)-1; int rc = KSI_TlvElement_serialize(el, NULL, 0, &l, opt);
			vh_eval++;
			if (rc == KSI_OK && !refuse && l != explen) vh_viol("element.serialize:null-buffer-length-query:wrong-length", tdesc, "KSI_TlvElement_serialize(NULL,0,opt=%s) answers %zu, reference length is %zu", optname(opt), l, explen);
			else vh_count(rc == KSI_OK ? "null_query_ok" : "null_query_refused", 1);
		}
	}
	if (hi) {
		int rc;
		case_sub(" entry=KSI_TlvElement_detach");
		rc = KSI_TlvElement_detach(el);
		vh_eval++;
		if (!t->fits) {
			if (rc == KSI_OK) { char key[96]; snprintf(key, sizeof key, "element.detach:oversize-content-%s:accepted", over == 65536 ? "65536" : "gt65536"); vh_viol(key, tdesc, "KSI_TlvElement_detach re-encodes a tree holding an element with %zu content bytes and succeeds; header now %02x %02x %02x %02x", over, el->ptr[0], el->ptr[1], el->ptr[2], el->ptr[3]); }
			else vh_count("oversize_refused", 1);
		} else if (rc != KSI_OK) vh_viol("element.detach:fitting-tree:refused", tdesc, "KSI_TlvElement_detach failed res=0x%x", rc);
		else {
			size_t n = t->elen, l = 0; unsigned char *buf;
			if (el->ftlv.hdr_len != (size_t)t->hl || el->ftlv.dat_len != t->clen || memcmp(el->ptr, E, t->elen)) vh_viol("element.detach:wrong-encoding", tdesc, "after KSI_TlvElement_detach the element holds hdr_len=%zu dat_len=%zu, reference %d/%zu (or bytes differ)", el->ftlv.hdr_len, el->ftlv.dat_len, t->hl, t->clen);
			else vh_count("detach_ok", 1);
			buf = out_get(n, n);
			rc = KSI_TlvElement_serialize(el, buf, n, &l, 0);
			judge("element.serialize", "KSI_TlvElement_detach+KSI_TlvElement_serialize", 0, E, t->elen, 0, 0, n, rc, buf, l);
			out_put();
			el_deep(el, E, t->elen, 0, tdesc);
		}
	}
	KSI_TlvElement_free(el);
	arena_free();
}

/* ------------------------------------------------------------------ parsers against the reference decoder */
static void tlv_deep(KSI_TLV *tlv, const unsigned char *el, size_t ellen, int depth, const char *xrep) {
	Hdr h; const unsigned char *p = NULL, *pay; size_t l = 0; long r; int canon, rc; KSI_LIST(KSI_TLV) *list = NULL;
	if (ref_prefix(el, ellen, &h) || h.hl + h.dl != ellen) die("tlv_deep: reference element inconsistent");
	pay = el + h.hl;
	vh_eval++;
	if (KSI_TLV_getTag(tlv) != h.tag) { vh_viol("tlv.parse:reports-wrong-tag", xrep, "depth %d: tag 0x%x reported, 0x%x encoded", depth, KSI_TLV_getTag(tlv), h.tag); return; }
	if (!!KSI_TLV_isNonCritical(tlv) != h.nc || !!KSI_TLV_isForward(tlv) != h.fwd) { vh_viol("tlv.parse:reports-wrong-flags", xrep, "depth %d tag 0x%x: flags N=%d F=%d reported, N=%d F=%d encoded", depth, h.tag, KSI_TLV_isNonCritical(tlv), KSI_TLV_isForward(tlv), h.nc, h.fwd); return; }
	rc = KSI_TLV_getRawValue(tlv, &p, &l);
	if (rc != KSI_OK) { vh_viol("tlv.parse:payload-getter-fails", xrep, "depth %d tag 0x%x: KSI_TLV_getRawValue res=0x%x", depth, h.tag, rc); return; }
	if (l != h.dl || (l && memcmp(p, pay, l))) { vh_viol("tlv.parse:reports-wrong-payload", xrep, "depth %d tag 0x%x: %zu payload bytes reported, %zu encoded (or bytes differ)", depth, h.tag, l, h.dl); return; }
	vh_count("tlv_fields_equal", 1);
	if (depth >= MAXD) return;
	r = ref_tile(pay, h.dl, &canon);
	rc = KSI_TLV_getNestedList(tlv, &list);
	vh_eval++;
	if (r < 0) {
		if (rc == KSI_OK) vh_viol("tlv.getNestedList:mistiled-content:accepted", xrep, "depth %d tag 0x%x: content of %zu bytes is not tiled by its declared element lengths but was expanded into %zu elements", depth, h.tag, h.dl, (size_t)KSI_TLVList_length(list));
		else {
			/* the refused expansion must leave the element as it was: a second attempt fails again and the element still reports
			 * and serializes exactly its encoded payload */
			const unsigned char *p2 = NULL; size_t l2 = 0; unsigned char *ser = NULL; size_t sl = 0; int rc2;
			vh_count("tlv_mistiled_rejected", 1);
			list = NULL;
			rc2 = KSI_TLV_getNestedList(tlv, &list);
			if (rc2 == KSI_OK) vh_viol("tlv.getNestedList:mistiled-content:accepted-on-second-attempt", xrep, "depth %d tag 0x%x: expansion of mis-tiled content was refused, the repeated call succeeds with %zu elements", depth, h.tag, (size_t)KSI_TLVList_length(list));
			rc2 = KSI_TLV_getRawValue(tlv, &p2, &l2);
			if (rc2 != KSI_OK || l2 != h.dl || (l2 && memcmp(p2, pay, l2))) vh_viol("tlv.getNestedList:refused-expansion-changed-element", xrep, "depth %d tag 0x%x: after a refused expansion the element reports %zu payload bytes (res=0x%x), %zu encoded", depth, h.tag, l2, rc2, h.dl);
			if (depth == 0 && h.canon) {
				rc2 = KSI_TLV_serialize(tlv, &ser, &sl);
				if (rc2 == KSI_OK && (sl != ellen || memcmp(ser, el, sl))) vh_viol("tlv.getNestedList:refused-expansion-changed-serialization", xrep, "tag 0x%x: after a refused expansion the element serializes to %zu bytes, %zu encoded (or bytes differ)", h.tag, sl, ellen);
				KSI_free(ser);
			}
			vh_count("tlv_mistiled_rechecked", 1);
		}
		return;
	}
	if (rc != KSI_OK) {
		if (canon) vh_viol("tlv.getNestedList:tiled-content:refused", xrep, "depth %d tag 0x%x: content of %zu bytes is exactly tiled by %ld canonical elements but expansion failed res=0x%x", depth, h.tag, h.dl, r, rc);
		else vh_count("noncanonical_refused", 1);
		return;
	}
	if ((long)KSI_TLVList_length(list) != r) { vh_viol("tlv.getNestedList:wrong-child-count", xrep, "depth %d tag 0x%x: %zu children reported, %ld encoded", depth, h.tag, (size_t)KSI_TLVList_length(list), r); return; }
	vh_count("tlv_expansions_equal", 1);
	{
		long i; const unsigned char *q = pay; size_t rest = h.dl;
		for (i = 0; i < r; i++) {
			Hdr c; KSI_TLV *ch = NULL;
			ref_prefix(q, rest, &c);
			if (KSI_TLVList_elementAt(list, (size_t)i, &ch) != KSI_OK || !ch) die("elementAt");
			tlv_deep(ch, q, c.hl + c.dl, depth + 1, xrep);
			q += c.hl + c.dl; rest -= c.hl + c.dl;
		}
	}
}

static void el_deep(KSI_TlvElement *el, const unsigned char *ref, size_t avail, int depth, const char *xrep) {
	Hdr h; long r; int canon, rc; KSI_TlvElement *dummy = NULL; const unsigned char *pay;
	if (ref_prefix(ref, avail, &h)) die("el_deep: reference element inconsistent");
	pay = ref + h.hl;
	vh_eval++;
	if (el->ftlv.tag != h.tag) { vh_viol("element.parse:reports-wrong-tag", xrep, "depth %d: tag 0x%x reported, 0x%x encoded", depth, el->ftlv.tag, h.tag); return; }
	if (!!el->ftlv.is_nc != h.nc || !!el->ftlv.is_fwd != h.fwd) { vh_viol("element.parse:reports-wrong-flags", xrep, "depth %d tag 0x%x: flags N=%d F=%d reported, N=%d F=%d encoded", depth, h.tag, el->ftlv.is_nc, el->ftlv.is_fwd, h.nc, h.fwd); return; }
	if (el->ftlv.hdr_len != h.hl || el->ftlv.dat_len != h.dl) { vh_viol("element.parse:reports-wrong-size", xrep, "depth %d tag 0x%x: header/payload %zu/%zu reported, %zu/%zu encoded", depth, h.tag, el->ftlv.hdr_len, el->ftlv.dat_len, h.hl, h.dl); return; }
	if (h.dl && memcmp(el->ptr + el->ftlv.hdr_len, pay, h.dl)) { vh_viol("element.parse:reports-wrong-payload", xrep, "depth %d tag 0x%x: payload bytes differ", depth, h.tag); return; }
	vh_count("element_fields_equal", 1);
	if (depth >= MAXD) return;
	r = ref_tile(pay, h.dl, &canon);
	/* any accessor expands the content; 0xffffffff cannot match a 13-bit tag */
	rc = KSI_TlvElement_getElement(el, 0xffffffffu, &dummy);
	if (dummy) KSI_TlvElement_free(dummy);
	vh_eval++;
	if (r < 0) {
		if (rc == KSI_OK) vh_viol("element.expand:mistiled-content:accepted", xrep, "depth %d tag 0x%x: content of %zu bytes is not tiled by its declared element lengths but was expanded into %zu elements", depth, h.tag, h.dl, (size_t)KSI_TlvElementList_length(el->subList));
		else vh_count("element_mistiled_rejected", 1);
		return;
	}
	if (rc != KSI_OK) {
		if (canon) vh_viol("element.expand:tiled-content:refused", xrep, "depth %d tag 0x%x: content of %zu bytes is exactly tiled by %ld canonical elements but expansion failed res=0x%x", depth, h.tag, h.dl, r, rc);
		else vh_count("noncanonical_refused", 1);
		return;
	}
	if ((long)KSI_TlvElementList_length(el->subList) != r) { vh_viol("element.expand:wrong-child-count", xrep, "depth %d tag 0x%x: %zu children reported, %ld encoded", depth, h.tag, (size_t)KSI_TlvElementList_length(el->subList), r); return; }
	vh_count("element_expansions_equal", 1);
	{
		long i; const unsigned char *q = pay; size_t rest = h.dl;
		for (i = 0; i < r; i++) {
			Hdr c; KSI_TlvElement *ch = NULL;
			ref_prefix(q, rest, &c);
			if (KSI_TlvElementList_elementAt(el->subList, (size_t)i, &ch) != KSI_OK || !ch) die("element elementAt");
			el_deep(ch, q, rest, depth + 1, xrep);
			q += c.hl + c.dl; rest -= c.hl + c.dl;
		}
	}
}

static int ftlv_equal(const KSI_FTLV *f, const Hdr *h, size_t off) {
	return f->off == off && f->hdr_len == h->hl && f->dat_len == h->dl && f->tag == h->tag && !!f->is_nc == h->nc && !!f->is_fwd == h->fwd;
}

/* all parsers / memory readers over one byte string */
static void parse_all(const unsigned char *X, size_t n) {
	unsigned char *xc; Hdr h; int pre, exact, rc; char *xrep; char *hx;
	if (n == 0 && !empty_inputs) return;
	xc = vh_exact(X, n);
	{ size_t show = n > 600 ? 600 : n; hx = vh_hex(X, show); xrep = malloc(strlen(hx) + 96); sprintf(xrep, "input[%zu]=%s%s", n, hx, show < n ? ".." : ""); free(hx); }
	vh_fp(vh_mix(vh_hash_bytes(X, n > 4096 ? 4096 : n), n));
	pre = ref_prefix(X, n, &h) == 0; exact = pre && h.hl + h.dl == n;
	case_sub(" parse %.900s", xrep);
	/* header reader */
	{
		KSI_FTLV f; memset(&f, 0xEE, sizeof f);
		rc = KSI_FTLV_memRead(xc, n, &f);
		vh_eval++;
		if (!pre) { if (rc == KSI_OK) vh_viol("ftlv.memRead:incomplete-element:accepted", xrep, "KSI_FTLV_memRead accepts %zu bytes that do not hold a whole element (reports hdr %zu + payload %zu)", n, f.hdr_len, f.dat_len); else vh_count("memRead_incomplete_rejected", 1); }
		else if (rc != KSI_OK) { if (h.canon) vh_viol("ftlv.memRead:complete-element:refused", xrep, "KSI_FTLV_memRead res=0x%x for a complete element (%zu+%zu bytes of %zu)", rc, h.hl, h.dl, n); else vh_count("noncanonical_refused", 1); }
		else if (!ftlv_equal(&f, &h, 0)) vh_viol("ftlv.memRead:reports-wrong-fields", xrep, "KSI_FTLV_memRead reports off=%zu hdr=%zu len=%zu tag=0x%x N=%d F=%d; encoded hdr=%zu len=%zu tag=0x%x N=%d F=%d", f.off, f.hdr_len, f.dat_len, f.tag, f.is_nc, f.is_fwd, h.hl, h.dl, h.tag, h.nc, h.fwd);
		else vh_count("memRead_equal", 1);
	}
	/* memReadN: count mode and array mode */
	if (n > 0) {
		static const size_t ks[4] = {0, 1, 3, 40}; int ki;
		for (ki = 0; ki < 4; ki++) {
			size_t k = ks[ki], cnt = (size_t)-1, i, refcnt = 0, off = 0; int refok = 1, canon = 1; KSI_FTLV *arr = k ? malloc(k * sizeof *arr) : NULL;
			Hdr hs[40]; size_t offs[40];
			while ((k == 0 || refcnt < k) && off < n) {
				Hdr c; if (ref_prefix(X + off, n - off, &c)) { refok = 0; break; }
				if (!c.canon) canon = 0;
				if (refcnt < 40) { hs[refcnt] = c; offs[refcnt] = off; }
				refcnt++; off += c.hl + c.dl;
			}
			if (arr) memset(arr, 0xEE, k * sizeof *arr);
			rc = KSI_FTLV_memReadN(xc, n, arr, k, &cnt);
			vh_eval++;
			if (!refok) { if (rc == KSI_OK) vh_viol("ftlv.memReadN:mistiled-input:accepted", xrep, "KSI_FTLV_memReadN(arr_len=%zu) succeeds (%zu elements) although element %zu is incomplete", k, cnt, refcnt); else vh_count("memReadN_mistiled_rejected", 1); }
			else if (rc != KSI_OK) { if (canon) vh_viol("ftlv.memReadN:tiled-input:refused", xrep, "KSI_FTLV_memReadN(arr_len=%zu) res=0x%x although the first %zu elements are complete", k, rc, refcnt); else vh_count("noncanonical_refused", 1); }
			else if (cnt != refcnt) vh_viol("ftlv.memReadN:wrong-count", xrep, "KSI_FTLV_memReadN(arr_len=%zu) reports %zu elements, reference %zu", k, cnt, refcnt);
			else {
				int bad = 0;
				for (i = 0; arr && i < refcnt && i < 40; i++) if (!ftlv_equal(&arr[i], &hs[i], offs[i])) { bad = 1; vh_viol("ftlv.memReadN:reports-wrong-fields", xrep, "element %zu: off=%zu hdr=%zu len=%zu tag=0x%x reported; encoded off=%zu hdr=%zu len=%zu tag=0x%x", i, arr[i].off, arr[i].hdr_len, arr[i].dat_len, arr[i].tag, offs[i], hs[i].hl, hs[i].dl, hs[i].tag); break; }
				if (!bad) vh_count("memReadN_equal", 1);
			}
			free(arr);
		}
	}
	/* tree codec */
	{
		KSI_TLV *tlv = NULL; int own0 = (int)(vh_hash_bytes(X, n > 64 ? 64 : n) & 1) && n >= 2;
		unsigned char *cp = own0 ? vh_exact(X, n) : NULL;
		rc = own0 ? KSI_TLV_parseBlob2(ctx, cp, n, 0, &tlv) : KSI_TLV_parseBlob(ctx, xc, n, &tlv);
		vh_eval++;
		if (!exact) { if (rc == KSI_OK) vh_viol("tlv.parseBlob:mis-sized-input:accepted", xrep, "%s accepts %zu bytes whose top element declares %s", own0 ? "KSI_TLV_parseBlob2" : "KSI_TLV_parseBlob", n, pre ? "fewer bytes" : "more bytes than present / has no complete header"); else vh_count("parseBlob_missized_rejected", 1); }
		else if (rc != KSI_OK || !tlv) { if (h.canon) vh_viol("tlv.parseBlob:exact-element:refused", xrep, "%s res=0x%x for an element that fills its input exactly", own0 ? "KSI_TLV_parseBlob2" : "KSI_TLV_parseBlob", rc); else vh_count("noncanonical_refused", 1); }
		else { vh_count("parseBlob_accepted", 1); tlv_deep(tlv, X, n, 0, xrep); }
		if (tlv) KSI_TLV_free(tlv);
		if (cp) vh_exact_free(cp, n);
	}
	/* element codec (a prefix reader: reports the size of the first element, trailing bytes are the caller's) */
	{
		KSI_TlvElement *el = NULL;
		rc = KSI_TlvElement_parse(xc, n, &el);
		vh_eval++;
		if (!pre) { if (rc == KSI_OK) vh_viol("element.parse:incomplete-element:accepted", xrep, "KSI_TlvElement_parse accepts %zu bytes that do not hold a whole element", n); else vh_count("element_incomplete_rejected", 1); }
		else if (rc != KSI_OK || !el) { if (h.canon) vh_viol("element.parse:complete-element:refused", xrep, "KSI_TlvElement_parse res=0x%x for a complete element", rc); else vh_count("noncanonical_refused", 1); }
		else { vh_count("element_accepted", 1); if (el->ptr != xc) vh_viol("element.parse:wrong-pointer", xrep, "element does not point at its input"); else el_deep(el, xc, n, 0, xrep); }
		if (el) KSI_TlvElement_free(el);
	}
	vh_exact_free(xc, n);
	free(xrep);
}

/* ------------------------------------------------------------------ stream readers */
static size_t drain(int fd) { unsigned char tmp[4096]; size_t tot = 0; for (;;) { ssize_t r = recv(fd, tmp, sizeof tmp, MSG_DONTWAIT); if (r <= 0) break; tot += (size_t)r; } return tot; }

/* the socket delivers its bytes in fragments: recv() on frag_fd returns at most the next scripted number of bytes */
static int frag_fd = -1, frag_n, frag_i; static size_t frag_sz[12];
ssize_t __real_recv(int fd, void *b, size_t n, int fl);
ssize_t __wrap_recv(int fd, void *b, size_t n, int fl) {
	if (fd == frag_fd && frag_i < frag_n && n > 0) { size_t k = frag_sz[frag_i++]; if (k < n) n = k; vh_count("socket_fragments_delivered", 1); }
	return __real_recv(fd, b, n, fl);
}

/* stream S of sl bytes, caller buffer of n bytes, through FILE (kind 0) or socket (kind 1; every third case in fragments of 1..40 bytes) */
static void stream_one(const unsigned char *S, size_t sl, size_t n, int kind) {
	Hdr h; int pre = ref_prefix(S, sl, &h) == 0, rc; size_t consumed = (size_t)-1, pos = 0; unsigned char *buf; KSI_FTLV f;
	char rep[1500]; const char *fn = kind ? "KSI_FTLV_socketRead" : "KSI_FTLV_fileRead"; char key[128];
	{ size_t show = sl > 600 ? 600 : sl; char *hx = vh_hex(S, show); snprintf(rep, sizeof rep, "%s stream[%zu]=%s%s buffer_size=%zu", fn, sl, hx, show < sl ? ".." : "", n); free(hx); }
	case_sub(" %.1200s", rep);
	memset(&f, 0xEE, sizeof f);
	buf = out_get(n, 0);
	if (kind == 0) {
		unsigned char *sc; FILE *fp;
		if (sl == 0) { out_put(); vh_count("skipped_out_of_domain", 1); return; } /* fmemopen cannot represent an empty stream portably */
		sc = vh_exact(S, sl); fp = fmemopen(sc, sl, "r");
		if (!fp) die("fmemopen");
		rc = KSI_FTLV_fileRead(fp, buf, n, &consumed, &f);
		pos = (size_t)ftell(fp);
		fclose(fp); vh_exact_free(sc, sl);
	} else {
		int sv[2]; size_t w = 0;
		if (socketpair(AF_UNIX, SOCK_STREAM, 0, sv)) die("socketpair");
		while (w < sl) { ssize_t r = send(sv[0], S + w, sl - w, MSG_NOSIGNAL); if (r <= 0) die("send"); w += (size_t)r; }
		shutdown(sv[0], SHUT_WR);
		{ static unsigned turn; if (turn++ % 3 != 2) { int i; frag_fd = sv[1]; frag_i = 0; frag_n = 2 + (int)vh_below(10); for (i = 0; i < frag_n; i++) frag_sz[i] = 1 + vh_below(i % 2 ? 40 : 5); } }
		rc = KSI_FTLV_socketRead(sv[1], buf, n, &consumed, &f);
		frag_fd = -1;
		pos = sl - drain(sv[1]);
		close(sv[0]); close(sv[1]);
	}
	vh_eval++; vh_fp(vh_mix(vh_mix(vh_hash_bytes(S, sl > 4096 ? 4096 : sl), n), 77 + kind));
	if (!pre || n < h.hl + h.dl) {
		if (rc == KSI_OK) { snprintf(key, sizeof key, "ftlv.%s:%s:accepted", kind ? "socketRead" : "fileRead", pre ? "short-buffer" : "truncated-stream"); vh_viol(key, rep, "%s succeeds although %s", fn, pre ? "the buffer is smaller than the element" : "the stream ends inside the element"); }
		else { vh_count(pre ? "stream_short_buffer_refused" : "stream_truncated_refused", 1); if (consumed != (size_t)-1 && consumed > sl) { snprintf(key, sizeof key, "ftlv.%s:consumed-more-than-stream", kind ? "socketRead" : "fileRead"); vh_viol(key, rep, "%s reports %zu bytes consumed from a stream of %zu", fn, consumed, sl); } }
	} else if (rc != KSI_OK) {
		if (h.canon) { snprintf(key, sizeof key, "ftlv.%s:complete-element:refused", kind ? "socketRead" : "fileRead"); vh_viol(key, rep, "%s res=0x%x although stream and buffer hold the whole element (%zu bytes)", fn, rc, h.hl + h.dl); }
		else vh_count("noncanonical_refused", 1);
	} else {
		size_t el = h.hl + h.dl;
		if (consumed != el || pos != el) { snprintf(key, sizeof key, "ftlv.%s:consumed-count-wrong", kind ? "socketRead" : "fileRead"); vh_viol(key, rep, "%s reports %zu consumed, stream position advanced by %zu, the element has %zu bytes", fn, consumed, pos, el); }
		else if (memcmp(buf, S, el)) { snprintf(key, sizeof key, "ftlv.%s:wrong-bytes", kind ? "socketRead" : "fileRead"); vh_viol(key, rep, "%s delivered bytes differ from the stream", fn); }
		else if (!ftlv_equal(&f, &h, f.off)) { snprintf(key, sizeof key, "ftlv.%s:reports-wrong-fields", kind ? "socketRead" : "fileRead"); vh_viol(key, rep, "%s reports hdr=%zu len=%zu tag=0x%x N=%d F=%d; encoded hdr=%zu len=%zu tag=0x%x N=%d F=%d", fn, f.hdr_len, f.dat_len, f.tag, f.is_nc, f.is_fwd, h.hl, h.dl, h.tag, h.nc, h.fwd); }
		else vh_count(kind ? "socketRead_exact_element" : "fileRead_exact_element", 1);
	}
	out_put();
}

static void stream_checks(const unsigned char *E, size_t N, int sockets) {
	unsigned char *S = malloc(N + 8); size_t j, k; int kind;
	static const size_t junk[3] = {0, 1, 5};
	memcpy(S, E, N); for (j = 0; j < 8; j++) S[N + j] = (unsigned char)vh_rand();
	for (kind = 0; kind <= (sockets ? 1 : 0); kind++) {
		/* whole element followed by foreign bytes; buffers of every size (files, small elements) or around the element size */
		for (j = 0; j < 3; j++) {
			if (kind == 0 && N <= 80) { for (k = 0; k <= N + 8; k++) stream_one(S, N + junk[j], k, 0); }
			else {
				long d;
				for (k = 0; k <= 5 && k + 3 < N; k++) stream_one(S, N + junk[j], k, kind);
				for (d = -3; d <= 3; d++) if ((long)N + d >= 0) stream_one(S, N + junk[j], (size_t)((long)N + d), kind);
				stream_one(S, N + junk[j], N + 8, kind);
			}
			if (kind && j == 0) j = 1;
		}
		/* truncations of the stream (all of them for files and small elements) */
		{ size_t step = (kind || N > 300) ? 1 + N / 16 : 1; for (k = 0; k < N; k += (k < 5 || k + 5 >= N) ? 1 : step) stream_one(S, k, N, kind); }
	}
	free(S);
}

/* ------------------------------------------------------------------ element codec edits: remove / set on a parsed element */
/* tree codec edits on a PARSED element (it owns a copy of the encoding): expand, append a child and / or replace a child by another one
 * (shorter, longer, much longer), then serialize - directly, or after the payload getter has collapsed the element in place. Expected:
 * the reference encoding of the edited tree; an edited tree that no longer fits is refused; nothing is freed twice or written outside. */
static void tlv_edit_checks(Node *t, const unsigned char *E) {
	static const size_t lens[] = {0, 1, 3, 40, 254, 255, 256, 300, 2000, 70000}; static unsigned turn;
	KSI_TLV *tlv = NULL, *nc = NULL; KSI_LIST(KSI_TLV) *list = NULL; unsigned char *in; int rc, op, collapse; size_t j = 0, k; Node *leaf = NULL, *old = NULL; unsigned char *pv;
	if (!t->comp || !t->fits) return;
	turn++;
	in = vh_exact(E, t->elen);
	rc = KSI_TLV_parseBlob(ctx, in, t->elen, &tlv);
	vh_exact_free(in, t->elen);
	if (rc != KSI_OK || !tlv) return;                 /* reported by parse_all */
	if (KSI_TLV_getNestedList(tlv, &list) != KSI_OK || (t->nk && !list)) { KSI_TLV_free(tlv); return; }
	op = (int)(turn % 4); if (t->nk == 0 && op != 3) op = 0;      /* 0 append, 1 replace, 2 replace + append, 3 raw value set on the parsed element itself */
	collapse = (int)((turn / 4) % 2);
	k = lens[vh_below(sizeof lens / sizeof *lens)];
	if (k > 60000 && vh_below(4)) k = 300;             /* the oversize edit now and then only */
	pv = malloc(k + 1); { size_t i; for (i = 0; i < k; i++) pv[i] = (unsigned char)(0x5A ^ (i * 3)); }
	if (t->nk > 0 && turn % 5 == 4) {
		/* children of the parsed, expanded element are taken out of its list (the way the signature builder drops records): the element is
		 * what its remaining children are - when none is left, an empty element - and no longer the bytes it was parsed from */
		size_t keep = vh_below(2) ? 0 : vh_below(t->nk), i; Node tmp = *t; unsigned char *exp, *b = NULL; size_t l = 0; const unsigned char *rv = NULL; size_t rvl = 0;
		case_sub(" children %zu..%zu of the parsed element removed from its list", keep, t->nk - 1);
		for (i = t->nk; i-- > keep; ) if (KSI_TLVList_remove(list, i, NULL) != KSI_OK) die("KSI_TLVList_remove");
		tmp.nk = keep; measure(&tmp);
		exp = malloc(tmp.elen + 8); enc(&tmp, exp, NULL);
		rc = KSI_TLV_serialize(tlv, &b, &l);
		vh_eval++;
		judge("tlv.edit", "parse+KSI_TLVList_remove+KSI_TLV_serialize", 0, exp, tmp.elen, 0, 0, (size_t)1 << 19, rc, rc == KSI_OK ? b : NULL, l);
		if (rc == KSI_OK && l == tmp.elen && !memcmp(b, exp, l)) vh_count(keep ? "tree_children_removed_some_left" : "tree_children_removed_none_left", 1);
		if (rc == KSI_OK) KSI_free(b);
		/* the raw value is the same content */
		rc = KSI_TLV_getRawValue(tlv, &rv, &rvl);
		vh_eval++;
		if (rc != KSI_OK) vh_viol("tlv.edit:getRawValue-after-remove:refused", tdesc, "KSI_TLV_getRawValue after removing children res=0x%x", rc);
		else if (rvl != tmp.clen || (rvl && memcmp(rv, exp + tmp.hl, rvl))) vh_viol("tlv.edit:getRawValue-after-remove:wrong-content", tdesc, "after removing children the raw value has %zu bytes, the remaining children encode to %zu", rvl, tmp.clen);
		measure(t);
		free(exp);
		goto done;
	}
	if (op == 3) {
		/* the parsed element (expanded above) gets a raw value of k bytes - shorter or longer than what it was parsed with */
		Node lf; unsigned char *exp, *b = NULL; size_t l = 0;
		case_sub(" raw value of %zu bytes set on the parsed element", k);
		rc = KSI_TLV_setRawValue(tlv, k ? pv : NULL, k);
		vh_eval++;
		if (k > 0xffff) { if (rc == KSI_OK) vh_viol("tlv.edit:setRawValue:oversize:accepted", tdesc, "KSI_TLV_setRawValue(%zu bytes) accepted", k); else vh_count("setRawValue_oversize_refused", 1); }
		else if (rc != KSI_OK) vh_viol("tlv.edit:setRawValue:fitting-payload:refused", tdesc, "KSI_TLV_setRawValue(%zu bytes) on a parsed element (%zu bytes of content before) res=0x%x", k, t->clen, rc);
		/* whatever the answer was, the element must still serialize to something it really holds */
		rc = KSI_TLV_serialize(tlv, &b, &l);
		if (k <= 0xffff) {
			memset(&lf, 0, sizeof lf); lf.tag = t->tag; lf.nc = t->nc; lf.fwd = t->fwd; lf.pl = pv; lf.pln = k; measure(&lf);
			exp = malloc(lf.elen + 8); enc(&lf, exp, NULL);
			judge("tlv.edit", "parse+KSI_TLV_setRawValue+KSI_TLV_serialize", 0, exp, lf.elen, 0, 0, (size_t)1 << 19, rc, rc == KSI_OK ? b : NULL, l);
			if (rc == KSI_OK && l == lf.elen) vh_count("tree_edits_ok", 1);
			free(exp);
		} else if (rc == KSI_OK && l > 4 + 0xffff) vh_viol("tlv.edit:serialize-after-refused-setRawValue:oversize", tdesc, "after a refused KSI_TLV_setRawValue(%zu) the element serializes to %zu bytes", k, l);
		if (rc == KSI_OK) KSI_free(b);
		goto done;
	}
	leaf = leaf_new((unsigned)(1 + vh_below(0x1e)), (int)vh_below(2), (int)vh_below(2), pv, k);
	case_sub(" tree edit on parsed element: op=%d new-leaf tag=0x%x len=%zu collapse-first=%d", op, leaf->tag, k, collapse);
	if (KSI_TLV_new(ctx, leaf->tag, leaf->nc, leaf->fwd, &nc) != KSI_OK) die("KSI_TLV_new");
	rc = KSI_TLV_setRawValue(nc, k ? pv : NULL, k);
	if (rc != KSI_OK) { /* a payload beyond the length field is refused here already */ KSI_TLV_free(nc); KSI_TLV_free(tlv); node_free(leaf); free(pv); if (k <= 0xffff) vh_viol("tlv.setRawValue:fitting-payload:refused", tdesc, "KSI_TLV_setRawValue(%zu) res=0x%x", k, rc); else vh_count("setRawValue_oversize_refused", 1); return; }
	if (op >= 1) {
		KSI_TLV *oc = NULL; j = vh_below(t->nk);
		if (KSI_TLVList_elementAt(list, j, &oc) != KSI_OK || !oc) die("elementAt");
		rc = KSI_TLV_replaceNestedTlv(tlv, oc, nc);
		if (rc != KSI_OK) { vh_viol("tlv.replaceNestedTlv:refused", tdesc, "KSI_TLV_replaceNestedTlv(child %zu) res=0x%x", j, rc); KSI_TLV_free(nc); goto done; }
		old = t->kid[j]; t->kid[j] = leaf;
		if (op == 2) {
			KSI_TLV *nc2 = NULL; Node *leaf2 = leaf_new(0x11, 0, 0, pv, k > 7 ? 7 : k);
			if (KSI_TLV_new(ctx, 0x11, 0, 0, &nc2) != KSI_OK || KSI_TLV_setRawValue(nc2, pv, k > 7 ? 7 : k) != KSI_OK) die("KSI_TLV_new");
			rc = KSI_TLV_appendNestedTlv(tlv, nc2);
			if (rc != KSI_OK) { vh_viol("tlv.appendNestedTlv:refused", tdesc, "KSI_TLV_appendNestedTlv res=0x%x", rc); KSI_TLV_free(nc2); node_free(leaf2); t->kid[j] = old; old = NULL; node_free(leaf); leaf = NULL; goto done; }
			node_add(t, leaf2);
		}
	} else {
		rc = KSI_TLV_appendNestedTlv(tlv, nc);
		if (rc != KSI_OK) { vh_viol("tlv.appendNestedTlv:refused", tdesc, "KSI_TLV_appendNestedTlv res=0x%x", rc); KSI_TLV_free(nc); node_free(leaf); leaf = NULL; goto done; }
		node_add(t, leaf);
	}
	measure(t);
	{
		unsigned char *exp = NULL, *b = NULL; size_t n = 0, l = 0;
		if (t->fits) { exp = malloc(t->elen + 8); enc(t, exp, NULL); n = t->elen; }
		if (collapse) {
			const unsigned char *p2 = NULL; size_t l2 = 0;
			rc = KSI_TLV_getRawValue(tlv, &p2, &l2);
			vh_eval++;
			if (t->fits && t->kids_fit && t->clen <= 0xffff) {
				if (rc != KSI_OK) vh_viol("tlv.edit:getRawValue:fitting-tree:refused", tdesc, "KSI_TLV_getRawValue on the edited element res=0x%x", rc);
				else if (l2 != t->clen || (l2 && memcmp(p2, exp + t->hl, l2))) vh_viol("tlv.edit:getRawValue:wrong-payload", tdesc, "payload of the edited element: %zu bytes, reference %zu (or bytes differ)", l2, t->clen);
			} else if (rc == KSI_OK && l2 > 0xffff) vh_viol("tlv.edit:getRawValue:oversize:accepted", tdesc, "KSI_TLV_getRawValue hands out %zu payload bytes", l2);
		}
		rc = KSI_TLV_serialize(tlv, &b, &l);
		judge("tlv.edit", collapse ? "parse+edit+KSI_TLV_getRawValue+KSI_TLV_serialize" : "parse+edit+KSI_TLV_serialize", 0, exp, n, !t->fits, over_size(t), (size_t)1 << 19, rc, rc == KSI_OK ? b : NULL, l);
		if (rc == KSI_OK) { KSI_free(b); if (t->fits) vh_count("tree_edits_ok", 1); }
		free(exp);
	}
	/* restore the model */
	if (op == 2) { t->nk--; node_free(t->kid[t->nk]); }
	if (op >= 1) { t->kid[j] = old; node_free(leaf); } else { t->nk--; node_free(leaf); }
	leaf = NULL; old = NULL;
	measure(t);
done:
	KSI_TLV_free(tlv);
	free(pv);
}

/* an element made with KSI_TlvElement_new is given children with KSI_TlvElement_appendElement, then every child is taken out again with
 * KSI_TlvElement_removeElement: what is left is the element without content (its header with length 0), and after each step the serialization is
 * the reference encoding of what is in it */
static void append_remove_checks(Node *t) {
	KSI_TlvElement *el = NULL; size_t i, j, nk, kept[8]; Node *m; unsigned char *e2, *o, *buf; size_t n, l; int rc;
	if (!t->comp || t->nk == 0 || !t->fits) return;
	/* children with tags of their own only (removal is by tag) */
	for (i = 0, nk = 0; i < t->nk && nk < 8; i++) { int uniq = t->kid[i]->fits; for (j = 0; j < t->nk; j++) if (j != i && t->kid[j]->tag == t->kid[i]->tag) uniq = 0; if (uniq) kept[nk++] = i; }
	if (nk == 0) return;
	if (KSI_TlvElement_new(&el) != KSI_OK || !el) die("KSI_TlvElement_new");
	el->ftlv.tag = t->tag; el->ftlv.is_nc = t->nc; el->ftlv.is_fwd = t->fwd;
	m = calloc(1, sizeof *m); m->tag = t->tag; m->nc = t->nc; m->fwd = t->fwd; m->comp = 1; m->kid = calloc(8, sizeof *m->kid); m->nk = 0;
	case_sub(" edit: %zu children appended to a new element, then removed one by one", nk);
	for (i = 0; i < nk; i++) {
		KSI_TlvElement *c = build_el(t->kid[kept[i]]);
		if (!c) goto done;
		rc = KSI_TlvElement_appendElement(el, c); KSI_TlvElement_free(c);
		if (rc != KSI_OK) die("appendElement");
		m->kid[m->nk++] = t->kid[kept[i]];
	}
	for (i = 0; i <= nk; i++) {
		measure(m);
		if (m->fits) {
			e2 = malloc(m->elen + 8); o = enc(m, e2, NULL); n = (size_t)(o - e2);
			buf = out_get(n, n); l = 0; rc = KSI_TlvElement_serialize(el, buf, n, &l, 0);
			vh_eval++;
			judge("element.edit", i == 0 ? "KSI_TlvElement_appendElement+KSI_TlvElement_serialize" : m->nk ? "appendElement+removeElement+KSI_TlvElement_serialize" : "appendElement+removeElement(every child)+KSI_TlvElement_serialize", 0, e2, n, 0, 0, n, rc, buf, l); out_put();
			if (rc == KSI_OK && m->nk == 0) vh_count("edit_emptied_elements_ok", 1);
			free(e2);
		}
		if (i < nk) {
			KSI_TlvElement *rem = NULL; size_t pick = vh_below(m->nk);
			rc = KSI_TlvElement_removeElement(el, m->kid[pick]->tag, &rem);
			if (rc != KSI_OK) { vh_viol("element.removeElement:appended-child:refused", tdesc, "KSI_TlvElement_removeElement(tag 0x%x) on an appended child res=0x%x", m->kid[pick]->tag, rc); if (rem) KSI_TlvElement_free(rem); break; }
			KSI_TlvElement_free(rem);
			memmove(&m->kid[pick], &m->kid[pick + 1], (m->nk - pick - 1) * sizeof *m->kid); m->nk--;
		}
	}
done:
	KSI_TlvElement_free(el);
	arena_free();
	free(m->kid); free(m);
	measure(t);
}

static void mutate_checks(Node *t, const unsigned char *E) {
	size_t i, j, pick = (size_t)-1; KSI_TlvElement *el = NULL, *rem = NULL; unsigned char *in; int rc; Node *removed;
	unsigned char *exp, *o; size_t n, l;
	if (!t->comp || t->nk == 0) return;
	for (i = 0; i < t->nk; i++) { int uniq = 1; size_t c = (i + vh_below(t->nk)) % t->nk; for (j = 0; j < t->nk; j++) if (j != c && t->kid[j]->tag == t->kid[c]->tag) uniq = 0; if (uniq) { pick = c; break; } }
	if (pick == (size_t)-1) { vh_count("mutate_no_unique_child", 1); return; }
	in = vh_exact(E, t->elen);
	case_sub(" edit: remove child %zu", pick);
	if (KSI_TlvElement_parse(in, t->elen, &el) != KSI_OK) { vh_exact_free(in, t->elen); return; } /* reported by parse_all */
	rc = KSI_TlvElement_removeElement(el, t->kid[pick]->tag, &rem);
	vh_eval++;
	if (rc != KSI_OK || !rem) { vh_viol("element.removeElement:unique-child:refused", tdesc, "KSI_TlvElement_removeElement(tag 0x%x) res=0x%x", t->kid[pick]->tag, rc); goto done; }
	/* expected: the tree without that child */
	removed = t->kid[pick];
	memmove(&t->kid[pick], &t->kid[pick + 1], (t->nk - pick - 1) * sizeof *t->kid); t->nk--;
	measure(t);
	exp = malloc(t->elen + removed->elen + 8); o = enc(t, exp, NULL); n = (size_t)(o - exp);
	{ unsigned char *buf = out_get(n, n); l = 0; rc = KSI_TlvElement_serialize(el, buf, n, &l, 0);
	  judge("element.edit", "KSI_TlvElement_removeElement+KSI_TlvElement_serialize", 0, exp, n, 0, 0, n, rc, buf, l); out_put(); }
	{ size_t rn = removed->elen; unsigned char *re = malloc(rn), *buf = out_get(rn, rn); enc(removed, re, NULL); l = 0; rc = KSI_TlvElement_serialize(rem, buf, rn, &l, 0);
	  judge("element.edit", "removed child: KSI_TlvElement_serialize", 0, re, rn, 0, 0, rn, rc, buf, l); out_put(); free(re); }
	/* put it back with setElement: appended as the last child */
	case_sub(" edit: remove child %zu, set it again", pick);
	rc = KSI_TlvElement_setElement(el, rem);
	vh_eval++;
	t->kid[t->nk++] = removed; measure(t);
	if (rc != KSI_OK) vh_viol("element.setElement:new-child:refused", tdesc, "KSI_TlvElement_setElement(tag 0x%x) res=0x%x", removed->tag, rc);
	else {
		unsigned char *buf; o = enc(t, exp, NULL); n = (size_t)(o - exp);
		buf = out_get(n, n); l = 0; rc = KSI_TlvElement_serialize(el, buf, n, &l, 0);
		judge("element.edit", "KSI_TlvElement_setElement+KSI_TlvElement_serialize", 0, exp, n, 0, 0, n, rc, buf, l); out_put();
		rc = KSI_TlvElement_detach(el);
		vh_eval++;
		if (rc != KSI_OK) vh_viol("element.detach:fitting-tree:refused", tdesc, "KSI_TlvElement_detach after edits failed res=0x%x", rc);
		else if (el->ftlv.hdr_len + el->ftlv.dat_len != n || memcmp(el->ptr, exp, n)) vh_viol("element.detach:wrong-encoding", tdesc, "after edits and KSI_TlvElement_detach the element holds %zu bytes, reference %zu (or bytes differ)", el->ftlv.hdr_len + el->ftlv.dat_len, n);
		else vh_count("edit_roundtrips_ok", 1);
	}
	/* replace a child that is present (by preference not the first one) through setElement: the new value takes the place of the old one, every other
	 * child stays where it was */
	if (rc == KSI_OK) {
		size_t c2 = (size_t)-1, k2; Node *old2, *nw; KSI_TlvElement *ne; static const size_t lens[5] = {0, 1, 3, 40, 300}; unsigned char pay[300]; size_t pl = lens[vh_below(5)];
		for (k2 = t->nk; k2-- > 0; ) { int uniq = 1; for (j = 0; j < t->nk; j++) if (j != k2 && t->kid[j]->tag == t->kid[k2]->tag) uniq = 0; if (uniq) { c2 = k2; if (k2 > 0 && vh_below(4)) break; } }
		if (c2 != (size_t)-1) {
			for (j = 0; j < pl; j++) pay[j] = (unsigned char)(0x41 + (j + c2) % 23);
			old2 = t->kid[c2];
			nw = leaf_new(old2->tag, old2->nc, old2->fwd, pay, pl);
			measure(nw);
			case_sub(" edit: replace child %zu of %zu (tag 0x%x) by a value of %zu octets", c2, t->nk, old2->tag, pl);
			/* the new child is parsed from a buffer of the caller's; after the parent has been detached once more that buffer is the caller's to
			 * reuse or release (half of the times; otherwise the child is built the usual ways) */
			{ unsigned char *cb = NULL; int own_buf = (int)vh_below(2);
			if (own_buf) { cb = malloc(nw->elen ? nw->elen : 1); enc(nw, cb, NULL); ne = NULL; if (KSI_TlvElement_parse(cb, nw->elen, &ne) != KSI_OK) ne = NULL; }
			else ne = build_el(nw);
			if (ne) {
				int rc3 = KSI_TlvElement_setElement(el, ne);
				vh_eval++;
				KSI_TlvElement_free(ne);
				if (own_buf && rc3 == KSI_OK) {
					int rc4 = KSI_TlvElement_detach(el);
					vh_eval++;
					if (rc4 != KSI_OK) vh_viol("element.detach:second-detach:refused", tdesc, "KSI_TlvElement_detach on an element that was detached before and then given a child res=0x%x", rc4);
					memset(cb, 0xDD, nw->elen); free(cb); cb = NULL;
					vh_count("edit_second_detach_then_child_buffer_released", 1);
				}
				t->kid[c2] = nw; measure(t);
				if (rc3 != KSI_OK) { if (t->fits) vh_viol("element.setElement:replace-child:refused", tdesc, "KSI_TlvElement_setElement(tag 0x%x, present once) res=0x%x", nw->tag, rc3); }
				else if (t->fits) {
					unsigned char *e2 = malloc(t->elen + 8), *buf; o = enc(t, e2, NULL); n = (size_t)(o - e2);
					buf = out_get(n, n); l = 0; rc3 = KSI_TlvElement_serialize(el, buf, n, &l, 0);
					judge("element.edit", "KSI_TlvElement_setElement(replace)+KSI_TlvElement_serialize", 0, e2, n, 0, 0, n, rc3, buf, l); out_put();
					vh_count(c2 == 0 ? "edit_replaced_first_child" : "edit_replaced_later_child", 1);
					free(e2);
				}
				t->kid[c2] = old2; measure(t);
			}
			free(cb); }
			free(nw->pl); free(nw);
		}
	}
	/* restore the original child order */
	t->nk--; memmove(&t->kid[pick + 1], &t->kid[pick], (t->nk - pick) * sizeof *t->kid); t->kid[pick] = removed; t->nk++; measure(t);
	free(exp);
done:
	if (rem) KSI_TlvElement_free(rem);
	if (el) KSI_TlvElement_free(el);
	arena_free();
	vh_exact_free(in, t->elen);
}

/* ------------------------------------------------------------------ one tree through everything selected */
static void perturb(const unsigned char *E, size_t N) {
	unsigned char *X = malloc(N + 1); size_t i, k; static const long d16[4] = {1, -1, 256, -256};
	/* every truncation */
	for (k = 0; k < N; k += (N > 2000 && k > 8 && k + 8 < N) ? N / 40 : 1) { vh_count("truncations", 1); parse_all(E, k); }
	/* every length field +-1 (and +-256 for 16-bit fields) */
	for (i = 0; i < nhdr; i++) {
		int v;
		if (N > 2000 && i > 12) break;
		for (v = 0; v < (hdr_form[i] == 2 ? 2 : 4); v++) {
			memcpy(X, E, N);
			if (hdr_form[i] == 2) X[hdr_off[i] + 1] = (unsigned char)(X[hdr_off[i] + 1] + d16[v]);
			else { unsigned l = (unsigned)((X[hdr_off[i] + 2] << 8 | X[hdr_off[i] + 3]) + d16[v]) & 0xffff; X[hdr_off[i] + 2] = (unsigned char)(l >> 8); X[hdr_off[i] + 3] = (unsigned char)l; }
			vh_count("length_perturbations", 1);
			parse_all(X, N);
		}
	}
	/* the same element with a 16-bit header although the short form would do (non canonical but well sized) */
	if (hdr_form[0] == 2) {
		unsigned char *Y = malloc(N + 2);
		Y[0] = (unsigned char)(0x80 | (E[0] & 0x60)); Y[1] = E[0] & 0x1f; Y[2] = 0; Y[3] = E[1]; memcpy(Y + 4, E + 2, N - 2);
		vh_count("noncanonical_inputs", 1);
		parse_all(Y, N + 2);
		free(Y);
	}
	free(X);
}

static uint64_t ntrees;
static void run_tree(Node *t) {
	unsigned char *full = NULL, *content = NULL, *E = NULL;
	measure(t);
	nhdr = 0;
	if (t->kids_fit) {
		full = malloc(4 + t->clen + 1); content = full + 4;
		if (t->fits) { E = full + 4 - t->hl; if (enc(t, E, E) != E + t->elen) die("reference encoder size"); }
		else enc_content(t, content, NULL);
	}
	describe(t, E);
	case_set(tdesc);
	ntrees++;
	vh_count(t->fits ? "trees_fitting" : "trees_oversize", 1);
	if (E) {
		vh_fp(vh_mix(vh_hash_bytes(E, t->elen), what));
		{ Hdr h; int c; if (ref_prefix(E, t->elen, &h) || h.hl + h.dl != t->elen || h.tag != t->tag || (t->comp && ref_tile(E + h.hl, h.dl, &c) != (long)t->nk)) die("reference decoder disagrees with reference encoder"); }
		if (vh_nsample < 3 && t->comp && t->elen > 12 && t->elen < 120) vh_sample("%s (%s)", tdesc,
			(what & W_TREE_SER) ? "tree codec: serialize, serialize_ex/writeBytes/serializePayload into every buffer size 0..needed+8, clone, getRawValue" :
			(what & W_EL_FIT) ? "element codec: serialize with every option into every buffer size needed..needed+8, length query, detach" :
			(what & W_EL_SHORT) ? "element codec: serialize with every option into every buffer size 0..needed-1" :
			(what & W_PARSE) ? "all parsers/readers over the encoding, every truncation, every length field +-1/+-256, non-canonical header" :
			(what & W_STREAM) ? "FILE and socket readers: element + foreign bytes, every buffer size, every truncation of the stream" : "element codec: remove / set / detach edits");
	} else vh_fp(vh_mix(vh_mix(t->clen, t->nk), vh_mix(over_size(t), what)));
	if (what & W_TREE_SER) tlv_serialize_checks(t, E, content);
	if (what & (W_EL_FIT | W_EL_SHORT)) {
		if (what & W_EL_FIT) el_serialize_checks(t, E, content, 0, 1);
		if (what & W_EL_SHORT) el_serialize_checks(t, E, content, 1, 0);
	}
	if (E && (what & W_PARSE)) { case_set(tdesc); parse_all(E, t->elen); perturb(E, t->elen); }
	if (E && (what & W_STREAM)) { case_set(tdesc); stream_checks(E, t->elen, t->elen < 64 || (ntrees % 8) == 0); }
	if (E && (what & W_MUTATE)) { case_set(tdesc); mutate_checks(t, E); case_set(tdesc); tlv_edit_checks(t, E); case_set(tdesc); append_remove_checks(t); }
	free(full);
}

/* ------------------------------------------------------------------ generators */
static unsigned rnd_tag(void) {
	static const unsigned edge[] = {0, 1, 0x1e, 0x1f, 0x20, 0x21, 0xff, 0x100, 0x101, 0x1ffe, 0x1fff};
	switch (vh_below(5)) {
	case 0: return edge[vh_below(sizeof edge / sizeof *edge)];
	case 1: case 2: return (unsigned)vh_below(0x20);
	case 3: return 0x20 + (unsigned)vh_below(0xe0);
	default: return (unsigned)vh_below(0x2000);
	}
}
static Node *gen_tree(int depth, int maxdepth, long *budget);
static Node *gen_leaf(long *budget) {
	size_t len, i; Node *n; unsigned char tmp[300];
	switch (vh_below(8)) {
	case 0: len = 0; break;
	case 1: case 2: case 3: len = 1 + vh_below(8); break;
	case 4: case 5: len = vh_below(40); break;
	case 6: len = 250 + vh_below(10); break;
	default: len = vh_below(120); break;
	}
	if ((long)len > *budget) len = *budget > 0 ? (size_t)*budget : 0;
	if (len > 299) len = 299;
	switch (vh_below(4)) {
	case 0: memset(tmp, 0, len); break;                                              /* tiles as empty elements when even */
	case 1: for (i = 0; i < len; i++) tmp[i] = (unsigned char)(i % 3 == 0 ? 1 + vh_below(0x1f) : i % 3 == 1 ? 1 : vh_rand()); break; /* 3-byte elements */
	default: for (i = 0; i < len; i++) tmp[i] = (unsigned char)vh_rand(); break;
	}
	n = leaf_new(rnd_tag(), (int)vh_below(2), (int)vh_below(2), tmp, len);
	*budget -= (long)len + 4;
	return n;
}
static Node *gen_tree(int depth, int maxdepth, long *budget) {
	Node *n; size_t nk, i;
	if (depth >= maxdepth || *budget < 8 || (depth > 0 && vh_below(100) < 35)) return gen_leaf(budget);
	n = node_new(rnd_tag(), (int)vh_below(2), (int)vh_below(2), 1);
	nk = vh_below(6) == 0 ? 0 : 1 + vh_below(4);
	*budget -= 4;
	for (i = 0; i < nk; i++) node_add(n, gen_tree(depth + 1, maxdepth, budget));
	/* steer the content size onto the 8-bit / 16-bit header boundary now and then */
	if (vh_below(6) == 0) {
		size_t target = 252 + vh_below(8);
		measure(n);
		if (n->clen + 2 <= target && target - n->clen - 2 <= 255) { unsigned char z[256]; size_t l = target - n->clen - 2; memset(z, 0x5a, l); node_add(n, leaf_new((unsigned)vh_below(0x20), 0, 0, z, l)); *budget -= (long)l + 2; }
	}
	return n;
}
/* a chain of single-child composites, depth 6 */
static Node *gen_chain(void) {
	long b = 60; Node *in = gen_leaf(&b); int d;
	for (d = 0; d < 6; d++) { Node *p = node_new(rnd_tag(), (int)vh_below(2), (int)vh_below(2), 1); if (vh_below(3) == 0) node_add(p, gen_leaf(&b)); node_add(p, in); if (vh_below(3) == 0) node_add(p, gen_leaf(&b)); in = p; }
	return in;
}

static void gen_trees(uint64_t count) {
	uint64_t i;
	for (i = 0; i < count; i++) {
		Node *t; long budget = (long)(vh_below(10) == 0 ? 560 : vh_below(3) == 0 ? 200 : 70);
		if (i % 16 == 5) t = gen_chain(); else t = gen_tree(0, 1 + (int)vh_below(6), &budget);
		run_tree(t);
		node_free(t);
	}
}

/* payload lengths 0..300 and 65530..65540, both header forms, both flags */
static void gen_leaves(unsigned shard, unsigned nshards, uint64_t count) {
	static const unsigned tags[] = {0x00, 0x01, 0x1f, 0x20, 0xff, 0x100, 0x1fff};
	size_t li, ti; unsigned idx = 0;
	for (li = 0; li <= 311; li++) {
		size_t len = li <= 300 ? li : 65530 + (li - 301);
		for (ti = 0; ti < sizeof tags / sizeof *tags; ti++) {
			int fl, nfl = (tags[ti] == 0x01 || tags[ti] == 0x20 || count > 1) ? 4 : 1;
			for (fl = 0; fl < nfl; fl++) {
				int flags = nfl == 4 ? fl : (int)((li + ti) & 3); Node *t;
				if (idx++ % nshards != shard) continue;
				t = leaf_pat(tags[ti], flags & 1, (flags >> 1) & 1, len);
				run_tree(t);
				node_free(t);
			}
		}
	}
}

/* content totals on the 16-bit boundary */
static void fill_content(Node *x, size_t T, int style) {
	size_t R = T; int first = 1;
	while (R) {
		size_t e;
		if (R <= 257) { if (R < 2) die("fill_content remainder"); node_add(x, leaf_pat(0x02, 0, 0, R - 2)); break; }
		switch (style) {
		case 1: e = 700 + vh_below(900); break;
		case 3: e = first ? 10 : R; break;
		default: e = R; break;
		}
		first = 0;
		if (e > R) e = R;
		if (e > 65539) e = 65539;
		if (e < 4) e = 4;
		if (R - e == 1) e--;
		node_add(x, leaf_pat(0x0300 + (unsigned)vh_below(0x100), (int)vh_below(2), (int)vh_below(2), e - 4));
		R -= e;
	}
}
static Node *make_T(size_t T, int style, int maxchain) {
	Node *x = node_new(vh_below(2) ? 0x0801 : 0x0c, (int)vh_below(2), (int)vh_below(2), 1);
	if (style == 2 && maxchain > 0 && T >= 300) { node_add(x, make_T(T - 4, 2, maxchain - 1)); return x; }
	fill_content(x, T, style == 2 ? 0 : style);
	return x;
}
static void gen_big(unsigned shard, unsigned nshards, uint64_t count) {
	static const size_t Ts[] = {65531, 65534, 65535, 65536, 65537, 65538, 65539, 65540, 65541, 66000, 131071, 131072, 131073};
	unsigned idx = 0; size_t ti; int style, d; uint64_t r;
	for (ti = 0; ti < sizeof Ts / sizeof *Ts; ti++) for (style = 0; style < 4; style++) for (d = 0; d <= 5; d++) {
		Node *x; int k;
		if (idx++ % nshards != shard) continue;
		if (Ts[ti] > 70000 && (d > 1 || style == 2)) continue;
		x = make_T(Ts[ti], style, 5 - d);
		for (k = 0; k < d; k++) { Node *p = node_new(k & 1 ? 0x05 : 0x0900 + (unsigned)k, 0, k & 1, 1); if (k == 1) node_add(p, leaf_pat(0x01, 0, 0, 3)); node_add(p, x); if (k == 2) node_add(p, leaf_pat(0x123, 1, 0, 300)); x = p; }
		run_tree(x);
		node_free(x);
	}
	/* random variants near the boundary */
	for (r = 0; r < count; r++) {
		size_t T = vh_below(3) ? 65520 + vh_below(40) : 65000 + vh_below(1200); Node *x; int k;
		style = (int)vh_below(4); d = (int)vh_below(6);
		x = make_T(T, style, 5 - d);
		for (k = 0; k < d; k++) { Node *p = node_new(rnd_tag(), (int)vh_below(2), (int)vh_below(2), 1); long b = 20; if (vh_below(3) == 0) node_add(p, gen_leaf(&b)); node_add(p, x); if (vh_below(3) == 0) node_add(p, gen_leaf(&b)); x = p; }
		run_tree(x);
		node_free(x);
	}
}

/* smallest trees for the boundary behaviours, run first so that the replay of a finding is a minimal one */
static void gen_witness(void) {
	static const size_t pl[] = {65531, 65532, 65533};   /* +4 header bytes: parent content 65535 / 65536 / 65537 */
	size_t i; Node *t;
	t = node_new(0x01, 0, 0, 1); node_add(t, leaf_pat(0x02, 0, 0, 1)); node_add(t, leaf_pat(0x03, 0, 0, 1)); run_tree(t); node_free(t);
	t = leaf_pat(0x01, 0, 0, 0); run_tree(t); node_free(t);
	t = leaf_pat(0x01, 0, 0, 3); run_tree(t); node_free(t);
	for (i = 0; i < 3; i++) { t = node_new(0x0801, 0, 0, 1); node_add(t, leaf_pat(0x0300, 0, 0, pl[i])); run_tree(t); node_free(t); }
	for (i = 0; i < 3; i++) { t = leaf_pat(0x01, 0, 0, 65535 + i); run_tree(t); node_free(t); }
}

/* all 2^16 two-byte prefixes x trailing lengths */
static void fill(unsigned char *p, size_t n, unsigned kind) {
	size_t i;
	if (n > 1500 && (kind & 3) < 2) kind = 2 + (kind & 1); /* tens of thousands of children only cost time (list growth is quadratic) */
	switch (kind & 3) {
	case 0: memset(p, 0, n); break;
	case 1: for (i = 0; i < n; i++) p[i] = (unsigned char)(i % 3 == 0 ? 0x41 : i % 3 == 1 ? 1 : 0x99); break;
	case 2: for (i = 0; i < n; i++) p[i] = (unsigned char)vh_rand(); break;
	default: /* one element filling everything */
		memset(p, n > 1500 ? 0xff : 0, n);
		if (n >= 2 && n <= 257) { p[0] = 0x07; p[1] = (unsigned char)(n - 2); }
		else if (n >= 4) { p[0] = 0x81; p[1] = 0x23; p[2] = (unsigned char)((n - 4) >> 8); p[3] = (unsigned char)(n - 4); }
		break;
	}
}
static void gen_prefix(unsigned shard, unsigned nshards) {
	static const unsigned L16[] = {0x0000, 0x0001, 0x0002, 0x00ff, 0x0100, 0x0101, 0xffff};
	unsigned b0, b1; unsigned char *X = malloc(65536 + 16); char note[64];
	for (b0 = 0; b0 < 256; b0++) {
		if (b0 % nshards != shard) continue;
		for (b1 = 0; b1 < 256; b1++) {
			size_t li, nl = (b0 & 0x80) ? sizeof L16 / sizeof *L16 : 1;
			snprintf(note, sizeof note, "prefix %02x %02x:", b0, b1); case_set(note);
			for (li = 0; li < nl; li++) {
				size_t hl = (b0 & 0x80) ? 4 : 2, dl = (b0 & 0x80) ? L16[li] : b1, need = hl + dl, Ls[8], nL = 0, k, j;
				if (dl == 0xffff && (b1 & 0x3f) != 0) continue;
				for (k = 1; k <= hl; k++) if (li == 0 || k > 2) Ls[nL++] = k;
				Ls[nL++] = need - 1; Ls[nL++] = need; Ls[nL++] = need + 1;
				for (k = 0; k < nL; k++) {
					size_t L = Ls[k]; int dup = 0;
					for (j = 0; j < k; j++) if (Ls[j] == L) dup = 1;
					if (dup || L == 0) continue;
					X[0] = (unsigned char)b0; if (L > 1) X[1] = (unsigned char)b1;
					if (b0 & 0x80) { if (L > 2) X[2] = (unsigned char)(L16[li] >> 8); if (L > 3) X[3] = (unsigned char)L16[li]; }
					if (L > hl) fill(X + hl, L - hl, (b0 ^ b1 ^ (unsigned)li ^ (unsigned)k ^ (unsigned)(vh_rng_state >> 60)));
					vh_count("prefix_inputs", 1);
					parse_all(X, L);
					if ((what & W_STREAM) && (b1 & 7) == 0 && dl < 1000 && L >= need) { stream_one(X, L, need, 0); stream_one(X, L, need + 3, 0); if (need > 2) stream_one(X, L, need - 1, 0); if ((b1 & 63) == 0) stream_one(X, L, need, 1); }
				}
			}
		}
	}
	free(X);
}

int main(int argc, char **argv) {
	const char *gen; uint64_t seed, count; unsigned shard, nshards;
	if (argc < 7) { fprintf(stderr, "usage: c09_tlv <prefix|leaf|trees|big> <what> <seed> <shard> <nshards> <count>\n"); return 3; }
	gen = argv[1]; what = (unsigned)strtoul(argv[2], NULL, 10); seed = strtoull(argv[3], NULL, 10);
	shard = (unsigned)strtoul(argv[4], NULL, 10); nshards = (unsigned)strtoul(argv[5], NULL, 10); count = strtoull(argv[6], NULL, 10);
	vh_seed(seed * 1000003ull + shard * 7919ull + what * 31ull + (unsigned char)gen[0]);
	if (KSI_CTX_new(&ctx) != KSI_OK) return 3;
	if (!strcmp(gen, "prefix")) gen_prefix(shard, nshards);
	else if (!strcmp(gen, "leaf")) gen_leaves(shard, nshards, count);
	else if (!strcmp(gen, "trees")) gen_trees(count);
	else if (!strcmp(gen, "big")) gen_big(shard, nshards, count);
	else if (!strcmp(gen, "witness")) gen_witness();
	else if (!strcmp(gen, "empty")) { unsigned char z = 0; empty_inputs = 1; case_set("zero-length input (pointer to the end of a heap block)"); vh_fp(12345); vh_fp(54321); parse_all(&z, 0); }
	else return 3;
	KSI_CTX_free(ctx);
	vh_finish(getenv("VH_FPFILE"));
	return 0;
}
