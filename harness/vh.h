/* Common helpers for /verif harness drivers (C). Output protocol on stdout, one record per line:
 *   EVAL <n>                 number of evaluated cases
 *   CNT <name> <n>           named counter
 *   VIOL <key>\t<what>\t<replay text>
 *   SAMPLE <text>
 *   FPFILE <path>            file with distinct 64-bit fingerprints (binary, native endian)
 */
#ifndef VH_H
#define VH_H
#include <stdio.h>
#include <stdlib.h>
#include <string.h>
#include <stdint.h>
#include <stdarg.h>

/* ---- PRNG (splitmix64) */
static uint64_t vh_rng_state = 0x9E3779B97F4A7C15ull;
static inline void vh_seed(uint64_t s) { vh_rng_state = s * 0x9E3779B97F4A7C15ull + 0x1234567; }
static inline uint64_t vh_rand(void) {
	uint64_t z = (vh_rng_state += 0x9E3779B97F4A7C15ull);
	z = (z ^ (z >> 30)) * 0xBF58476D1CE4E5B9ull;
	z = (z ^ (z >> 27)) * 0x94D049BB133111EBull;
	return z ^ (z >> 31);
}
static inline uint64_t vh_below(uint64_t n) { return n ? vh_rand() % n : 0; }

/* ---- fingerprints of distinct cases */
#define VH_FP_CAP (1u << 22)
static uint64_t *vh_fp_tab; static size_t vh_fp_n;
static inline uint64_t vh_mix(uint64_t h, uint64_t v) { h ^= v + 0x9E3779B97F4A7C15ull + (h << 6) + (h >> 2); h *= 0xff51afd7ed558ccdull; h ^= h >> 33; return h; }
static inline uint64_t vh_hash_bytes(const void *p, size_t n) { const unsigned char *b = p; uint64_t h = 1469598103934665603ull; size_t i; for (i = 0; i < n; i++) { h ^= b[i]; h *= 1099511628211ull; } return h; }
static inline void vh_fp(uint64_t fp) {
	size_t i;
	if (!vh_fp_tab) vh_fp_tab = calloc(VH_FP_CAP, sizeof(uint64_t));
	if (fp == 0) fp = 1;
	if (vh_fp_n >= VH_FP_CAP / 2) return; /* capped: count is a lower bound */
	i = (size_t)(fp * 0x9E3779B97F4A7C15ull >> 42) & (VH_FP_CAP - 1);
	while (vh_fp_tab[i] && vh_fp_tab[i] != fp) i = (i + 1) & (VH_FP_CAP - 1);
	if (!vh_fp_tab[i]) { vh_fp_tab[i] = fp; vh_fp_n++; }
}
static inline void vh_fp_dump(const char *path) {
	FILE *f; size_t i;
	if (!path) return;
	f = fopen(path, "wb"); if (!f) return;
	for (i = 0; vh_fp_tab && i < VH_FP_CAP; i++) if (vh_fp_tab[i]) fwrite(&vh_fp_tab[i], 8, 1, f);
	fclose(f);
	printf("FPFILE %s\n", path);
}

/* ---- counters */
#define VH_MAXCNT 256
static struct { const char *name; uint64_t n; } vh_cnt[VH_MAXCNT]; static int vh_ncnt; static uint64_t vh_eval;
static inline void vh_count(const char *name, uint64_t n) {
	int i; for (i = 0; i < vh_ncnt; i++) if (!strcmp(vh_cnt[i].name, name)) { vh_cnt[i].n += n; return; }
	if (vh_ncnt < VH_MAXCNT) { vh_cnt[vh_ncnt].name = strdup(name); vh_cnt[vh_ncnt].n = n; vh_ncnt++; }
}
static int vh_nviol, vh_nsample;
static inline void vh_clean(char *s) { for (; *s; s++) if (*s == '\t' || *s == '\n' || *s == '\r') *s = ' '; }
/* violation: key identifies the class, what describes, replay is text to reproduce */
static inline void vh_viol(const char *key, const char *replay, const char *fmt, ...) {
	char what[2048]; va_list va; char *k = strdup(key), *r = strdup(replay ? replay : "");
	va_start(va, fmt); vsnprintf(what, sizeof(what), fmt, va); va_end(va);
	vh_clean(what); vh_clean(k); vh_clean(r);
	if (vh_nviol++ < 2000) { printf("VIOL %s\t%s\t%s\n", k, what, r); fflush(stdout); }
	free(k); free(r);
}
static inline void vh_sample(const char *fmt, ...) {
	char s[2048]; va_list va;
	if (vh_nsample++ >= 6) return;
	va_start(va, fmt); vsnprintf(s, sizeof(s), fmt, va); va_end(va); vh_clean(s);
	printf("SAMPLE %s\n", s);
}
static inline void vh_finish(const char *fpfile) {
	int i;
	printf("EVAL %llu\n", (unsigned long long)vh_eval);
	for (i = 0; i < vh_ncnt; i++) printf("CNT %s %llu\n", vh_cnt[i].name, (unsigned long long)vh_cnt[i].n);
	vh_fp_dump(fpfile);
	printf("DONE\n"); fflush(stdout);
}

/* ---- hex */
static inline char *vh_hex(const unsigned char *p, size_t n) {
	static const char d[] = "0123456789abcdef"; char *s = malloc(n * 2 + 1); size_t i;
	for (i = 0; i < n; i++) { s[2*i] = d[p[i] >> 4]; s[2*i+1] = d[p[i] & 15]; } s[2*n] = 0; return s;
}
static inline int vh_hexval(int c) { if (c >= '0' && c <= '9') return c - '0'; if (c >= 'a' && c <= 'f') return c - 'a' + 10; if (c >= 'A' && c <= 'F') return c - 'A' + 10; return -1; }
/* returns an exactly sized heap block (length 0: a 1-byte block is allocated and the END pointer returned through *base) */
static inline unsigned char *vh_unhex(const char *s, size_t *len) {
	size_t n = strlen(s) / 2, i; unsigned char *p = malloc(n ? n : 1);
	for (i = 0; i < n; i++) p[i] = (unsigned char)(vh_hexval(s[2*i]) << 4 | vh_hexval(s[2*i+1]));
	*len = n; return p;
}
/* copy into an exactly sized block so that over-reads hit a red zone */
static inline unsigned char *vh_exact(const void *p, size_t n) { unsigned char *q = malloc(n ? n : 1); if (n) memcpy(q, p, n); return n ? q : q + 1; }
static inline void vh_exact_free(unsigned char *q, size_t n) { free(n ? q : q - 1); }

/* ---- "current case" note that survives any crash: kept in a file mapping named by $VH_CASEFILE */
#include <sys/mman.h>
#include <fcntl.h>
#include <unistd.h>
#define VH_CASE_SZ 262144
static char *vh_case_buf; static char vh_case_fallback[VH_CASE_SZ];
static inline void vh_case_init(void) {
	const char *p = getenv("VH_CASEFILE"); int fd;
	vh_case_buf = vh_case_fallback;
	if (!p) return;
	fd = open(p, O_RDWR | O_CREAT | O_TRUNC, 0644); if (fd < 0) return;
	if (ftruncate(fd, VH_CASE_SZ) == 0) { void *m = mmap(NULL, VH_CASE_SZ, PROT_READ | PROT_WRITE, MAP_SHARED, fd, 0); if (m != MAP_FAILED) vh_case_buf = m; }
	close(fd);
}
static inline void vh_case(const char *fmt, ...) {
	va_list va; if (!vh_case_buf) vh_case_init();
	va_start(va, fmt); vsnprintf(vh_case_buf, VH_CASE_SZ, fmt, va); va_end(va);
}
static inline const char *vh_case_get(void) { if (!vh_case_buf) vh_case_init(); return vh_case_buf; }
#endif
