#ifndef KSI_EXEC_H
#define KSI_EXEC_H
#include <ksi/ksi.h>
#include <ksi/net_async.h>
void kx_out(const char *fmt, ...);
void kx_outhex(const char *key, const unsigned char *p, size_t n);
char *kx_event(int wait, const char *fmt, ...);
unsigned char *kx_hexarg(const char *s, size_t *len);
KSI_CTX *kx_ctx(int i);
KSI_Signature **kx_sigslot(int i);
KSI_PublicationsFile **kx_pubfileslot(int i);
KSI_AsyncService **kx_asvcslot(int i);
KSI_AsyncHandle **kx_ahndslot(int i);
const char *kx_kv(const char *key);
long kx_kvl(const char *key, long def);
unsigned long long kx_kvu(const char *key, unsigned long long def);
/* network part (ksi_exec_net.c) */
void kx_net_ctx_init(KSI_CTX *ctx);
int kx_net_dispatch(char **tok, int ntok, int *handled);
void kx_net_cleanup(void);
#endif
