"""Process pool for python-driven checks: each job runs in a forked worker with its own ksi_exec processes."""
import multiprocessing as mp, traceback, hashlib, os
from . import core, kexec


class WorkerResult:
    def __init__(self):
        self.evals = 0
        self.fps = set()
        self.counters = {}
        self.viols = []      # (key, what, replay)
        self.samples = []
        self.error = None

    def count(self, k, n=1):
        self.counters[k] = self.counters.get(k, 0) + n

    def observe(self, fp, n=1):
        self.evals += n
        if fp is not None:
            if not isinstance(fp, int):
                fp = int.from_bytes(hashlib.blake2b(repr(fp).encode(), digest_size=8).digest(), 'big')
            self.fps.add(fp)

    def viol(self, key, what, replay=''):
        if len(self.viols) < 300:
            self.viols.append((key, what, replay))

    def sample(self, s):
        if len(self.samples) < 3:
            self.samples.append(s)

    def crash(self, e, prefix=''):
        """An ExecCrashed -> violation keyed by the sanitizer report (or inconclusive when there is none)."""
        key = core.san_summary(e.stderr)
        if isinstance(e, kexec.ExecTimeout):
            self.error = 'watchdog: %s' % e
            return
        if isinstance(e, kexec.ExecSpin):
            key = 'spin:' + (e.last.split(' ')[0] if e.last else 'command')
            self.viol(prefix + key, '%s\n%s' % (e, e.stderr[-3000:]), e.last)
            self.count('spinning_commands')
            return
        if key is None and e.rc is not None and e.rc < 0:
            key = 'signal:%d' % (-e.rc)
        if key is None:
            self.error = 'ksi_exec died without a report rc=%s last=%s stderr=%s' % (e.rc, e.last[:300], e.stderr[-2000:])
            return
        self.viol(prefix + key, 'sanitizer/crash report during: %s\n%s' % (e.last[:1500], e.stderr[:6000]), e.last)
        self.count('sanitizer_reports')


def _wrap(args):
    fn, job = args
    r = WorkerResult()
    try:
        fn(job, r)
    except kexec.ExecCrashed as e:
        r.crash(e)
    except Exception:
        r.error = traceback.format_exc()
    return r


def run(ctx, fn, jobs, workers=None):
    """fn(job, result) runs in a forked worker. Merges all results into ctx. Returns list of WorkerResult."""
    workers = workers or min(core.NCPU, max(1, len(jobs)))
    # (an executor rather than multiprocessing.Pool: when a worker is killed from outside - out of memory, say - this raises instead of waiting forever)
    from concurrent.futures import ProcessPoolExecutor
    from concurrent.futures.process import BrokenProcessPool
    try:
        with ProcessPoolExecutor(max_workers=workers, mp_context=mp.get_context('fork')) as pool:
            res = list(pool.map(_wrap, [(fn, j) for j in jobs], chunksize=1))
    except BrokenProcessPool as e:
        raise core.Inconclusive('a worker process of the check died (killed from outside?): %s' % e)
    errs = []
    for r in res:
        ctx.evaluations += r.evals
        ctx.distinct |= r.fps
        for k, v in r.counters.items():
            ctx.count(k, v)
        for s in r.samples:
            ctx.sample(s)
        for key, what, replay in r.viols:
            ctx.violation(key, what, replay)
        if r.error:
            errs.append(r.error)
    if errs:
        raise core.Inconclusive('worker failure: ' + errs[0][-3000:])
    return res


def check_exit(ctx, r, ex, prefix=''):
    """Close a ksi_exec process in a worker and turn a leak / late sanitizer report into a violation."""
    rc, err = ex.close()
    if rc != 0:
        key = core.san_summary(err)
        if key is None:
            r.error = 'ksi_exec exit rc=%s stderr=%s' % (rc, err[-2000:])
        else:
            r.viol(prefix + key, 'report at process exit:\n' + err[:6000], err[:6000])
            r.count('sanitizer_reports')
