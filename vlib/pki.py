"""Run-time test PKI (openssl CLI): CAs, signing certificates, PKCS#7 detached signatures, raw RSA signatures."""
import os, subprocess, time, zlib


def sh(args, **kw):
    p = subprocess.run(args, stdout=subprocess.PIPE, stderr=subprocess.PIPE, **kw)
    if p.returncode != 0:
        raise RuntimeError('%s failed: %s' % (' '.join(args[:4]), p.stderr.decode()[-500:]))
    return p.stdout


CA_CONF = """[ca]
default_ca=myca
[myca]
dir=%(d)s
database=%(d)s/index.txt
new_certs_dir=%(d)s
serial=%(d)s/serial
default_md=sha256
policy=pol
unique_subject=no
copy_extensions=none
[pol]
countryName=optional
organizationName=optional
commonName=optional
emailAddress=optional
[req]
distinguished_name=dn
[dn]
"""


class CA:
    def __init__(self, d, name, bits=2048):
        self.d = os.path.join(d, name)
        os.makedirs(self.d, exist_ok=True)
        self.key = os.path.join(self.d, 'ca.key')
        self.pem = os.path.join(self.d, 'ca.pem')
        self.bits = bits
        sh(['openssl', 'req', '-x509', '-newkey', 'rsa:%d' % bits, '-nodes', '-keyout', self.key, '-out', self.pem, '-subj', '/C=EE/O=Verif Test/CN=%s' % name, '-days', '30', '-sha256'])
        open(os.path.join(self.d, 'index.txt'), 'w').close()
        open(os.path.join(self.d, 'serial'), 'w').write('1000\n')
        self.conf = os.path.join(self.d, 'ca.cnf')
        open(self.conf, 'w').write(CA_CONF % dict(d=self.d))
        self.n = 0

    def issue(self, subj, not_before=None, not_after=None, name=None, ec=False):
        """-> Cert. subj like '/C=EE/O=Guardtime/CN=x/emailAddress=a@b'. Times are unix seconds (default: now-1h .. now+2d)."""
        self.n += 1
        name = name or 'c%d' % self.n
        key = os.path.join(self.d, name + '.key')
        csr = os.path.join(self.d, name + '.csr')
        pem = os.path.join(self.d, name + '.pem')
        if ec:
            # an EC (P-256) key: `openssl dgst -sign` then yields DER encoded ECDSA signatures
            sh(['openssl', 'req', '-newkey', 'ec', '-pkeyopt', 'ec_paramgen_curve:prime256v1', '-nodes', '-keyout', key, '-out', csr, '-subj', subj, '-sha256'])
        else:
            sh(['openssl', 'req', '-newkey', 'rsa:%d' % self.bits, '-nodes', '-keyout', key, '-out', csr, '-subj', subj, '-sha256'])
        nb = time.strftime('%Y%m%d%H%M%SZ', time.gmtime(not_before if not_before is not None else time.time() - 3600))
        na = time.strftime('%Y%m%d%H%M%SZ', time.gmtime(not_after if not_after is not None else time.time() + 2 * 86400))
        sh(['openssl', 'ca', '-batch', '-config', self.conf, '-cert', self.pem, '-keyfile', self.key, '-in', csr, '-out', pem, '-startdate', nb, '-enddate', na, '-notext'])
        return Cert(pem, key, self)


class Cert:
    def __init__(self, pem, key, ca):
        self.pem, self.key, self.ca = pem, key, ca
        self.der = sh(['openssl', 'x509', '-in', pem, '-outform', 'DER'])
        self.id = (zlib.crc32(self.der) & 0xffffffff).to_bytes(4, 'big')

    def pkcs7_detached(self, data, workdir, extra_certs=None):
        """DER PKCS#7 detached signature over data"""
        f = os.path.join(workdir, 'p7-%d-%d.bin' % (os.getpid(), time.time_ns()))
        open(f, 'wb').write(data)
        args = ['openssl', 'smime', '-sign', '-binary', '-in', f, '-signer', self.pem, '-inkey', self.key, '-outform', 'DER', '-md', 'sha256']
        if extra_certs:
            args += ['-certfile', extra_certs]
        out = sh(args)
        os.unlink(f)
        return out

    def rsa_sign(self, data, workdir, md='sha256'):
        f = os.path.join(workdir, 'rs-%d-%d.bin' % (os.getpid(), time.time_ns()))
        open(f, 'wb').write(data)
        out = sh(['openssl', 'dgst', '-' + md, '-sign', self.key, f])
        os.unlink(f)
        return out
