"""refksi: an independent reference model of the KSI formats and consistency rules.

Written from the KSI format / rule documentation (policy.h error-code list, tlv.h, the template
tables read as a *schema*, DESIGN.md Appendix A); uses only hashlib / hmac / zlib / struct.
Nothing here calls libksi.
"""
import hashlib, hmac as _hmac, struct, zlib

# ---------------------------------------------------------------- hashing
ALG = {0: ('sha1', 20), 1: ('sha256', 32), 2: ('ripemd160', 20), 4: ('sha384', 48), 5: ('sha512', 64),
       7: ('sha3_224', 28), 8: ('sha3_256', 32), 9: ('sha3_384', 48), 10: ('sha3_512', 64), 11: ('sm3', 32)}
SUPPORTED = (0, 1, 2, 4, 5)          # what this build of the SDK can compute
SHA1_DEPRECATED_FROM = 1467331200    # 2016-07-01T00:00:00Z


def alg_known(a):
    return a in ALG


def alg_len(a):
    return ALG[a][1] if a in ALG else 0


def digest(a, data):
    return hashlib.new(ALG[a][0], data).digest()


def H(a, data):
    """imprint of data under algorithm a"""
    return bytes([a]) + digest(a, data)


def imprint_ok(imp):
    return len(imp) >= 1 and imp[0] in ALG and len(imp) == 1 + ALG[imp[0]][1]


def deprecated_at(a, t):
    """True if algorithm a is deprecated (or obsolete) at time t. Unknown ids are not judged here."""
    if a == 0:
        return t >= SHA1_DEPRECATED_FROM
    if a in (3, 6):
        return t >= 1
    return False


def crc32(b):
    return zlib.crc32(b) & 0xffffffff


# ---------------------------------------------------------------- TLV
class TlvError(Exception):
    pass


def uint(n):
    """minimal big-endian integer, 0 = empty"""
    if n < 0:
        raise ValueError('negative integer')
    out = b''
    while n:
        out = bytes([n & 0xff]) + out
        n >>= 8
    return out


def parse_uint(b):
    if len(b) > 8:
        raise TlvError('integer too long')
    if len(b) and b[0] == 0:
        raise TlvError('integer not minimal')
    return int.from_bytes(b, 'big')


class T:
    """A TLV element: tag, flags, value (bytes or list of T). `long` forces the 16-bit header form."""
    __slots__ = ('tag', 'nc', 'fw', 'val', 'long')

    def __init__(self, tag, val=b'', nc=False, fw=False, long=False):
        self.tag, self.val, self.nc, self.fw, self.long = tag, val, nc, fw, long

    def payload(self):
        if isinstance(self.val, (bytes, bytearray)):
            return bytes(self.val)
        return b''.join(c.enc() for c in self.val)

    def enc(self):
        p = self.payload()
        n = len(p)
        if n > 0xffff:
            raise TlvError('payload too long')
        fl = (0x40 if self.nc else 0) | (0x20 if self.fw else 0)
        if self.tag <= 0x1f and n <= 0xff and not self.long:
            return bytes([fl | self.tag, n]) + p
        return bytes([0x80 | fl | (self.tag >> 8), self.tag & 0xff, n >> 8, n & 0xff]) + p

    def copy(self):
        v = self.val if isinstance(self.val, (bytes, bytearray)) else [c.copy() for c in self.val]
        return T(self.tag, v, self.nc, self.fw, self.long)

    def kids(self, tag=None):
        if isinstance(self.val, (bytes, bytearray)):
            return []
        return [c for c in self.val if tag is None or c.tag == tag]

    def one(self, tag):
        k = self.kids(tag)
        return k[0] if k else None

    def __repr__(self):
        if isinstance(self.val, (bytes, bytearray)):
            return 'T(%#x,%s)' % (self.tag, bytes(self.val).hex())
        return 'T(%#x,%r)' % (self.tag, self.val)


def read_tlv(buf, off=0):
    """Parse one element at off -> (T with raw bytes value, next offset, header length)."""
    if off + 2 > len(buf):
        raise TlvError('truncated header')
    b0 = buf[off]
    nc, fw = bool(b0 & 0x40), bool(b0 & 0x20)
    if b0 & 0x80:
        if off + 4 > len(buf):
            raise TlvError('truncated header16')
        tag = (b0 & 0x1f) << 8 | buf[off + 1]
        n = buf[off + 2] << 8 | buf[off + 3]
        h = 4
    else:
        tag = b0 & 0x1f
        n = buf[off + 1]
        h = 2
    if off + h + n > len(buf):
        raise TlvError('payload exceeds input')
    t = T(tag, bytes(buf[off + h: off + h + n]), nc, fw, long=bool(b0 & 0x80))
    return t, off + h + n, h


def read_all(buf):
    """Tile buf exactly with elements."""
    out, off = [], 0
    while off < len(buf):
        t, off, _ = read_tlv(buf, off)
        out.append(t)
    return out


def expand(t, depth=1):
    """Replace raw payload by children (exact tiling) down to `depth` levels; raises TlvError."""
    if depth <= 0 or not isinstance(t.val, (bytes, bytearray)):
        return t
    t.val = [expand(c, depth - 1) for c in read_all(t.val)]
    return t


def canonical(t):
    """is this element (and its expanded children) in the shortest header form?"""
    n = len(t.payload())
    short = t.tag <= 0x1f and n <= 0xff
    if t.long and short:
        return False
    return all(canonical(c) for c in t.kids())


# ---------------------------------------------------------------- chain model
TAG_SIG, TAG_AGGR, TAG_CAL, TAG_PUBREC, TAG_AGGRAUTH, TAG_CALAUTH, TAG_RFC = 0x800, 0x801, 0x802, 0x803, 0x804, 0x805, 0x806


def legacy_id(name):
    b = name.encode('utf-8')
    assert len(b) <= 25
    return bytes([3, 0, len(b)]) + b + bytes(29 - 3 - len(b))


def legacy_id_ok(b):
    if len(b) != 29 or b[0] != 3 or b[1] != 0 or b[2] > 25:
        return False
    n = b[2]
    if any(x != 0 for x in b[3 + n:]):
        return False
    try:
        b[3:3 + n].decode('utf-8')
    except UnicodeDecodeError:
        return False
    return True


def metadata(client, machine=None, seq=None, reqtime=None, padding='auto'):
    """metadata element payload children; padding 'auto' -> valid padding making the payload length even, None -> no padding"""
    kids = [T(1, client.encode() + b'\0')]
    if machine is not None:
        kids.append(T(2, machine.encode() + b'\0'))
    if seq is not None:
        kids.append(T(3, uint(seq)))
    if reqtime is not None:
        kids.append(T(4, uint(reqtime)))
    if padding == 'auto':
        body = sum(len(k.enc()) for k in kids)
        # padding element is 2 + 1 or 2 + 2 bytes
        pad = b'\x01' if (body + 3) % 2 == 0 else b'\x01\x01'
        kids.insert(0, T(0x1e, pad, nc=True, fw=True))
    elif padding is not None:
        kids.insert(0, padding)
    return kids


class Link:
    """aggregation chain link. left=True: tag 0x07 (sibling on the right). sib: ('imprint',bytes)|('legacy',bytes)|('meta',[T...])"""

    def __init__(self, left, sib, corr=None):
        self.left, self.sib, self.corr = left, sib, corr

    def tlv(self):
        kids = []
        if self.corr is not None:
            kids.append(T(1, uint(self.corr)))
        k, v = self.sib
        if k == 'imprint':
            kids.append(T(2, v))
        elif k == 'legacy':
            kids.append(T(3, v))
        else:
            kids.append(T(4, [c.copy() for c in v]))
        return T(7 if self.left else 8, kids)

    def sib_bytes(self):
        k, v = self.sib
        if k == 'meta':
            return b''.join(c.enc() for c in v)
        return v


def chain_fold(algo, start_hash, links, level):
    """KSI aggregation step folded over links -> (imprint, level) or None when the chain must be rejected."""
    h = start_hash
    for ln in links:
        c = ln.corr or 0
        if c > 0xff:
            return None
        level = level + c + 1
        if level > 0xff:
            return None
        s = ln.sib_bytes()
        if ln.left:
            h = H(algo, h + s + bytes([level]))
        else:
            h = H(algo, s + h + bytes([level]))
    return h, level


def shape_of(links):
    v = 1
    for ln in reversed(links):
        v = v << 1 | (1 if ln.left else 0)
    return v


class AggrChain:
    def __init__(self, aggr_time, index, input_hash, algo, links, input_data=None):
        self.aggr_time, self.index, self.input_hash, self.algo, self.links, self.input_data = aggr_time, list(index), input_hash, algo, links, input_data

    def tlv(self):
        kids = [T(2, uint(self.aggr_time))] + [T(3, uint(i)) for i in self.index]
        if self.input_data is not None:
            kids.append(T(4, self.input_data))
        kids += [T(5, self.input_hash), T(6, uint(self.algo))]
        kids += [ln.tlv() for ln in self.links]
        return T(TAG_AGGR, kids)

    def output(self, level=0):
        return chain_fold(self.algo, self.input_hash, self.links, level)


# calendar
def highbit(n):
    return 1 << (n.bit_length() - 1)


def cal_path(p, t):
    """direction list (leaf -> root) of leaf t in the calendar tree for publication time p. True = left link."""
    assert 0 <= t <= p
    top = []   # root -> leaf
    lo = 0
    while p > 0:
        b = highbit(p)
        if t - lo < b:          # in the left (perfect) subtree over lo..lo+b-1
            top.append(True)
            p = b - 1
        else:
            top.append(False)
            lo += b
            p = p - b
    return list(reversed(top))


def cal_time(p, dirs):
    """registration time derived from leaf->root directions and publication time, None if the shape is impossible."""
    r, t = p, 0
    for left in reversed(dirs):
        if r <= 0:
            return None
        if left:
            r = highbit(r) - 1
        else:
            t += highbit(r)
            r -= highbit(r)
    if r != 0:
        return None
    return t


def cal_fold(input_hash, links):
    """links: list of (left, sibling imprint). -> root imprint"""
    h = input_hash
    a = h[0]
    for left, sib in links:
        if left:
            a = sib[0]
            if a not in ALG:
                return None
            h = H(a, h + sib + b'\xff')
        else:
            if a not in ALG:
                return None
            h = H(a, sib + h + b'\xff')
    return h


class CalChain:
    def __init__(self, pub_time, aggr_time, input_hash, links):
        self.pub_time, self.aggr_time, self.input_hash, self.links = pub_time, aggr_time, input_hash, links

    def tlv(self):
        kids = [T(1, uint(self.pub_time))]
        if self.aggr_time is not None:
            kids.append(T(2, uint(self.aggr_time)))
        kids.append(T(5, self.input_hash))
        kids += [T(7 if l else 8, s) for l, s in self.links]
        return T(TAG_CAL, kids)

    def root(self):
        return cal_fold(self.input_hash, self.links)

    def eff_aggr_time(self):
        return self.pub_time if self.aggr_time is None else self.aggr_time


def pub_data(t, imprint):
    return T(0x10, [T(2, uint(t)), T(4, imprint)])


def pub_record(t, imprint, refs=(), uris=()):
    return T(TAG_PUBREC, [pub_data(t, imprint)] + [T(9, r.encode() + b'\0') for r in refs] + [T(0xa, u.encode() + b'\0') for u in uris])


def cal_auth_record(t, imprint, sigtype='1.2.840.113549.1.1.11', sigval=b'\x00' * 64, certid=b'\x01\x02\x03\x04', repuri=None):
    sd = [T(1, sigtype.encode() + b'\0'), T(2, sigval), T(3, certid)]
    if repuri is not None:
        sd.append(T(4, repuri.encode() + b'\0'))
    return T(TAG_CALAUTH, [pub_data(t, imprint), T(0xb, sd)])


def pub_string(t, imprint):
    import base64
    raw = struct.pack('>Q', t) + imprint
    raw += struct.pack('>I', crc32(raw))
    s = base64.b32encode(raw).decode().rstrip('=')
    return '-'.join(s[i:i + 6] for i in range(0, len(s), 6))


class Rfc3161:
    def __init__(self, aggr_time, index, input_hash, tst_prefix, tst_suffix, tst_algo, sig_prefix, sig_suffix, sig_algo):
        self.aggr_time, self.index, self.input_hash = aggr_time, list(index), input_hash
        self.tst_prefix, self.tst_suffix, self.tst_algo = tst_prefix, tst_suffix, tst_algo
        self.sig_prefix, self.sig_suffix, self.sig_algo = sig_prefix, sig_suffix, sig_algo

    def tlv(self):
        return T(TAG_RFC, [T(2, uint(self.aggr_time))] + [T(3, uint(i)) for i in self.index] + [
            T(5, self.input_hash), T(0x10, self.tst_prefix), T(0x11, self.tst_suffix), T(0x12, uint(self.tst_algo)),
            T(0x13, self.sig_prefix), T(0x14, self.sig_suffix), T(0x15, uint(self.sig_algo))])

    def output(self, out_algo):
        if self.tst_algo not in ALG or self.sig_algo not in ALG or out_algo not in ALG:
            return None
        h1 = H(self.tst_algo, self.tst_prefix + self.input_hash[1:] + self.tst_suffix)
        h2 = H(self.sig_algo, self.sig_prefix + h1[1:] + self.sig_suffix)
        return H(out_algo, h2)


class Sig:
    """Signature model. chains: list of AggrChain from the document (index 0) towards the root."""

    def __init__(self, chains, cal=None, pub=None, calauth=None, rfc=None, extra=()):
        self.chains, self.cal, self.pub, self.calauth, self.rfc = chains, cal, pub, calauth, rfc
        self.extra = list(extra)   # extra top-level T elements (e.g. unknown non-critical)

    def tlv(self):
        kids = [c.tlv() for c in self.chains]
        if self.cal is not None:
            kids.append(self.cal.tlv())
        if self.pub is not None:
            kids.append(self.pub if isinstance(self.pub, T) else pub_record(*self.pub))
        if self.calauth is not None:
            kids.append(self.calauth if isinstance(self.calauth, T) else cal_auth_record(*self.calauth))
        if self.rfc is not None:
            kids.append(self.rfc.tlv())
        return T(TAG_SIG, kids + self.extra)

    def enc(self):
        return self.tlv().enc()


# ---------------------------------------------------------------- parsing bytes into the model
class NotInDomain(Exception):
    """the byte string is not a signature the reference schema accepts (or is outside the compared domain)"""


def _single(t, tag, mandatory=True):
    k = t.kids(tag)
    if len(k) > 1 or (mandatory and not k):
        raise NotInDomain('multiplicity of %#x in %#x' % (tag, t.tag))
    return k[0] if k else None


def _uint(e):
    try:
        return parse_uint(e.val)
    except TlvError as ex:
        raise NotInDomain(str(ex))


def _imprint(e):
    if not imprint_ok(e.val):
        raise NotInDomain('bad imprint')
    return e.val


def _known_only(t, tags):
    """unknown critical elements make the object invalid; unknown non-critical ones are ignored (dropped from the model)"""
    for c in list(t.kids()):
        if c.tag not in tags:
            if not c.nc:
                raise NotInDomain('unknown critical element %#x in %#x' % (c.tag, t.tag))
            t.val.remove(c)


def parse_link(e):
    expand(e)
    _known_only(e, (1, 2, 3, 4))
    corr = _single(e, 1, False)
    corr = None if corr is None else _uint(corr)
    alts = [c for c in e.kids() if c.tag in (2, 3, 4)]
    if len(alts) != 1:
        raise NotInDomain('link sibling alternatives')
    a = alts[0]
    if a.tag == 2:
        sib = ('imprint', _imprint(a))
    elif a.tag == 3:
        if not legacy_id_ok(a.val):
            raise NotInDomain('legacy id')
        sib = ('legacy', a.val)
    else:
        expand(a)
        if not canonical(a):
            raise NotInDomain('metadata in non canonical form')
        sib = ('meta', a.val)
    return Link(e.tag == 7, sib, corr)


def parse_aggr_chain(e):
    expand(e)
    _known_only(e, (2, 3, 4, 5, 6, 7, 8))
    t = _uint(_single(e, 2))
    idx = [_uint(c) for c in e.kids(3)]
    if not idx:
        raise NotInDomain('no index')
    ind = _single(e, 4, False)
    ih = _imprint(_single(e, 5))
    algo = _uint(_single(e, 6))
    links = [parse_link(c) for c in e.kids() if c.tag in (7, 8)]
    if not links:
        raise NotInDomain('no links')
    return AggrChain(t, idx, ih, algo, links, None if ind is None else ind.val)


def parse_cal_chain(e):
    expand(e)
    _known_only(e, (1, 2, 5, 7, 8))
    p = _uint(_single(e, 1))
    a = _single(e, 2, False)
    a = None if a is None else _uint(a)
    ih = _imprint(_single(e, 5))
    links = [(c.tag == 7, _imprint(c)) for c in e.kids() if c.tag in (7, 8)]
    if not links:
        raise NotInDomain('no links')
    return CalChain(p, a, ih, links)


def parse_pub_data(e):
    expand(e)
    _known_only(e, (2, 4))
    return _uint(_single(e, 2)), _imprint(_single(e, 4))


def parse_sig(buf):
    """bytes -> Sig model; NotInDomain when the reference schema does not accept it."""
    try:
        t, off, _ = read_tlv(buf)
        if off != len(buf) or t.tag != TAG_SIG:
            raise NotInDomain('not one signature element')
        expand(t)
        _known_only(t, (TAG_AGGR, TAG_CAL, TAG_PUBREC, TAG_AGGRAUTH, TAG_CALAUTH, TAG_RFC))
        chains = [parse_aggr_chain(c) for c in t.kids(TAG_AGGR)]
        if not chains:
            raise NotInDomain('no aggregation chain')
        # element order in the file is free: chains are ordered by index length, longest (closest to the document) first
        chains.sort(key=lambda c: -len(c.index))
        cal = _single(t, TAG_CAL, False)
        pub = _single(t, TAG_PUBREC, False)
        ca = _single(t, TAG_CALAUTH, False)
        rfc = _single(t, TAG_RFC, False)
        if t.kids(TAG_AGGRAUTH):
            raise NotInDomain('aggregation auth record')
        if pub is not None and ca is not None:
            raise NotInDomain('both publication and auth record')
        s = Sig(chains)
        if cal is not None:
            s.cal = parse_cal_chain(cal)
        elif pub is not None or ca is not None:
            raise NotInDomain('publication/auth record without calendar chain')
        if pub is not None:
            expand(pub)
            s.pub = parse_pub_data(_single(pub, 0x10))
            s.pub_tlv = pub
        if ca is not None:
            expand(ca)
            s.calauth = parse_pub_data(_single(ca, 0x10))
            s.calauth_tlv = ca
        if rfc is not None:
            expand(rfc)
            _known_only(rfc, (2, 3, 5, 0x10, 0x11, 0x12, 0x13, 0x14, 0x15))
            s.rfc = Rfc3161(_uint(_single(rfc, 2)), [_uint(c) for c in rfc.kids(3)], _imprint(_single(rfc, 5)),
                            _single(rfc, 0x10).val, _single(rfc, 0x11).val, _uint(_single(rfc, 0x12)),
                            _single(rfc, 0x13).val, _single(rfc, 0x14).val, _uint(_single(rfc, 0x15)))
        return s
    except TlvError as ex:
        raise NotInDomain(str(ex))


# ---------------------------------------------------------------- internal consistency evaluation
def metadata_trusted(kids):
    """INT-11 condition for one metadata record (list of T children, canonical form)."""
    pads = [c for c in kids if c.tag == 0x1e]
    payload = b''.join(c.enc() for c in kids)
    if pads:
        f = kids[0]
        if f.tag != 0x1e or f.long or not (f.nc and f.fw):
            return False
        v = f.payload()
        if v not in (b'\x01', b'\x01\x01'):
            return False
        if len(payload) % 2:
            return False
        return True
    # no padding: must not be interpretable as an imprint
    if payload and alg_len(payload[0]) and len(payload) == 1 + alg_len(payload[0]):
        return False
    return True


class Verdict:
    """Result of the reference evaluation.
    may:  codes violated under at least one reading of the rules (a FAIL must carry one of these)
    must: codes violated under every reading (non-empty => OK is forbidden)
    uncomputable: some value cannot even be computed (then NA / error status is acceptable instead of FAIL)"""

    def __init__(self):
        self.may, self.must, self.uncomputable = set(), set(), False

    def add(self, code, certain=True):
        self.may.add(code)
        if certain:
            self.must.add(code)

    def __repr__(self):
        return 'Verdict(may=%s must=%s%s)' % (sorted(self.may), sorted(self.must), ' uncomputable' if self.uncomputable else '')


def evaluate_internal(s):
    """Independent evaluation of the KSI consistency conditions INT-01..INT-17 on a Sig model."""
    v = Verdict()
    ch = s.chains
    first = ch[0]
    times = {c.aggr_time for c in ch}
    if s.cal is not None:
        times.add(s.cal.eff_aggr_time())
    if s.rfc is not None:
        times.add(s.rfc.aggr_time)
    sign_times = sorted(times)
    certain_time = len(sign_times) == 1

    def dep(a):
        r = [deprecated_at(a, t) for t in sign_times]
        return any(r), all(r)

    # INT-13 document (input) hash algorithm deprecated at signing time
    doc_hash = s.rfc.input_hash if s.rfc is not None else first.input_hash
    a, b = dep(doc_hash[0])
    if a:
        v.add('INT-13', b and certain_time)
    # RFC3161 record
    if s.rfc is not None:
        r = s.rfc
        for al in (r.tst_algo, r.sig_algo):
            if al > 0xff or not alg_known(al) or al not in SUPPORTED:
                v.uncomputable = True
                v.add('INT-01', False)
            else:
                a, b = dep(al)
                if a:
                    v.add('INT-14', b and certain_time)
        a, b = dep(first.input_hash[0])
        if a:
            v.add('INT-17', b and certain_time)
        if r.aggr_time != first.aggr_time:
            v.add('INT-02')
        if r.index != first.index:
            v.add('INT-12')
        out = r.output(first.input_hash[0]) if first.input_hash[0] in SUPPORTED and r.tst_algo in SUPPORTED and r.sig_algo in SUPPORTED else None
        if out is None:
            v.uncomputable = True
            v.add('INT-01', False)
        elif out != first.input_hash:
            v.add('INT-01')
    # metadata
    for c in ch:
        for ln in c.links:
            if ln.sib[0] == 'meta' and not metadata_trusted(ln.sib[1]):
                v.add('INT-11')
    # aggregation algorithm of every chain
    for c in ch:
        if c.algo > 0xff or c.algo not in ALG or c.algo not in SUPPORTED:
            v.uncomputable = True      # chain output cannot be computed: never OK, any non-OK verdict acceptable
            v.add('INT-01', True)
        else:
            if deprecated_at(c.algo, c.aggr_time):
                v.add('INT-15')
    # index continuation: chain i index = chain i+1 index + one more element
    for i in range(len(ch) - 1):
        lo, hi = ch[i].index, ch[i + 1].index
        if len(lo) != len(hi) + 1 or lo[:len(hi)] != hi:
            v.add('INT-12')
    # time consistency
    for i in range(len(ch) - 1):
        if ch[i].aggr_time != ch[i + 1].aggr_time:
            v.add('INT-02')
    # chain consistency and levels
    level = 0
    root = None
    computable = True
    for i, c in enumerate(ch):
        if c.algo not in SUPPORTED:
            computable = False
            break
        if i > 0 and root != c.input_hash:
            v.add('INT-01')
        r = c.output(level)
        if r is None:
            v.uncomputable = True
            v.add('INT-01', True)   # level overflow: can never be OK
            v.add('INT-03', False)
            computable = False
            break
        root, level = r
    # index consistency: last index element equals the shape of the links
    for c in ch:
        sh = shape_of(c.links)
        if sh >= 1 << 64:
            v.uncomputable = True
            v.add('INT-10', True)
        elif c.index[-1] != sh:
            v.add('INT-10')
    # calendar chain
    if s.cal is not None:
        cal = s.cal
        if computable and root is not None and cal.input_hash != root:
            v.add('INT-03')
        if cal.eff_aggr_time() != ch[-1].aggr_time:
            v.add('INT-04', False)
        if any(cal.eff_aggr_time() != c.aggr_time for c in ch):
            v.add('INT-04', cal.eff_aggr_time() != ch[-1].aggr_time and cal.eff_aggr_time() != ch[0].aggr_time)
        rt = cal_time(cal.pub_time, [l for l, _ in cal.links])
        if rt is None:
            v.uncomputable = True
            v.add('INT-05')
        elif rt != cal.eff_aggr_time():
            v.add('INT-05')
        calroot = cal.root() if all((sib[0] in SUPPORTED) for l, sib in cal.links if l) and cal.input_hash[0] in SUPPORTED else None
        if calroot is None:
            v.uncomputable = True
            v.add('INT-09' if s.pub is not None else 'INT-08', False)
        if s.pub is not None:
            pt, ph = s.pub
            if calroot is not None and ph != calroot:
                v.add('INT-09')
            if pt != cal.pub_time:
                v.add('INT-07')
        if s.calauth is not None:
            pt, ph = s.calauth
            if calroot is not None and ph != calroot:
                v.add('INT-08')
            if pt != cal.pub_time:
                v.add('INT-06')
    return v


# ---------------------------------------------------------------- PDUs
def hmac_imprint(alg, key, data):
    return bytes([alg]) + _hmac.new(key, data, ALG[alg][0]).digest()


def pdu_v2(outer_tag, login, payload_elems, key, alg=1, instance=None, message=None, mac_override=None):
    """v2 PDU: header first, payload elements, MAC (imprint over everything before the digest) last."""
    hdr = [T(1, login.encode() + b'\0')]
    if instance is not None:
        hdr.append(T(2, uint(instance)))
    if message is not None:
        hdr.append(T(3, uint(message)))
    body = T(1, hdr).enc() + b''.join(e.enc() for e in payload_elems)
    dl = alg_len(alg)
    mac_el_len = 2 + 1 + dl
    total = len(body) + mac_el_len
    if outer_tag <= 0x1f and total <= 0xff:
        head = bytes([outer_tag, total])
    else:
        head = bytes([0x80 | outer_tag >> 8, outer_tag & 0xff, total >> 8, total & 0xff])
    pre = head + body + bytes([0x1f, 1 + dl, alg])
    mac = _hmac.new(key, pre, ALG[alg][0]).digest() if mac_override is None else mac_override
    return pre + mac


def pdu_v1(outer_tag, payload_tag, login, payload_kids, key, alg=1, instance=None, message=None):
    """v1 PDU: header, one payload element, MAC over header element || payload element."""
    hdr = [T(1, login.encode() + b'\0')]
    if instance is not None:
        hdr.append(T(2, uint(instance)))
    if message is not None:
        hdr.append(T(3, uint(message)))
    h = T(1, hdr)
    p = T(payload_tag, payload_kids)
    mac = hmac_imprint(alg, key, h.enc() + p.enc())
    return T(outer_tag, [h, p, T(0x1f, mac)]).enc()


def check_request_mac(pdu_bytes, key, version):
    """-> (ok, info) recompute the MAC of a request PDU produced by the SDK."""
    t, off, hl = read_tlv(pdu_bytes)
    if off != len(pdu_bytes):
        return False, 'trailing bytes'
    expand(t)
    kids = t.kids()
    if not kids or kids[0].tag != 1:
        return False, 'header not first'
    if kids[-1].tag != 0x1f:
        return False, 'mac not last'
    mac = kids[-1].val
    if not imprint_ok(mac):
        return False, 'mac imprint malformed'
    alg = mac[0]
    if version == 2:
        data = pdu_bytes[:len(pdu_bytes) - alg_len(alg)]
    else:
        if len(kids) != 3:
            return False, 'v1 pdu with %d elements' % len(kids)
        data = kids[0].enc() + kids[1].enc()
    good = _hmac.new(key, data, ALG[alg][0]).digest()
    return good == mac[1:], dict(alg=alg, login=expand(kids[0]).one(1).val if expand(kids[0]).one(1) else None, kids=kids)
