"""Reference aggregator / extender: parses request PDUs produced by the SDK and builds replies (honest or deviating)."""
import hashlib, struct, random
from . import refksi as R, gen
from .refksi import T, uint

AGGR_V1, AGGR_REQ_V2, AGGR_RESP_V2 = 0x200, 0x220, 0x221
EXT_V1, EXT_REQ_V2, EXT_RESP_V2 = 0x300, 0x320, 0x321


class BadRequest(Exception):
    pass


def parse_request(raw, kind, version):
    """kind 'aggr'|'ext'. -> dict. Raises BadRequest when the bytes are not a well-formed request PDU of that version."""
    try:
        t, off, hl = R.read_tlv(raw)
        if off != len(raw):
            raise BadRequest('trailing bytes after PDU')
        R.expand(t)
        want = {('aggr', 2): AGGR_REQ_V2, ('aggr', 1): AGGR_V1, ('ext', 2): EXT_REQ_V2, ('ext', 1): EXT_V1}[(kind, version)]
        if t.tag != want:
            raise BadRequest('outer tag %#x, expected %#x' % (t.tag, want))
        kids = t.kids()
        if not kids or kids[0].tag != 1:
            raise BadRequest('header not first')
        if kids[-1].tag != 0x1f:
            raise BadRequest('MAC not last')
        hdr = R.expand(kids[0])
        d = dict(raw=raw, version=version, kind=kind, outer=t, mac=kids[-1].val)
        lg = hdr.one(1)
        if lg is None or not lg.val.endswith(b'\0'):
            raise BadRequest('login id')
        d['login'] = lg.val[:-1]
        d['instance'] = R.parse_uint(hdr.one(2).val) if hdr.one(2) else None
        d['message'] = R.parse_uint(hdr.one(3).val) if hdr.one(3) else None
        ptag = {('aggr', 2): 2, ('aggr', 1): 0x201, ('ext', 2): 2, ('ext', 1): 0x301}[(kind, version)]
        body = [k for k in kids[1:-1]]
        d['payload_tags'] = [k.tag for k in body]
        rq = [k for k in body if k.tag == ptag]
        d['conf'] = any(k.tag == 4 for k in body) if version == 2 else False
        if len(rq) > 1:
            raise BadRequest('several requests')
        if rq:
            r = R.expand(rq[0])
            d['req_id'] = R.parse_uint(r.one(1).val) if r.one(1) else None
            if kind == 'aggr':
                d['hash'] = r.one(2).val if r.one(2) else None
                d['level'] = R.parse_uint(r.one(3).val) if r.one(3) else None
                d['level_present'] = r.one(3) is not None
                if version == 1 and r.one(0x10) is not None:
                    d['conf'] = True
            else:
                d['aggr_time'] = R.parse_uint(r.one(2).val) if r.one(2) else None
                d['pub_time'] = R.parse_uint(r.one(3).val) if r.one(3) else None
        else:
            d['req_id'] = None
        return d
    except (R.TlvError, KeyError, AttributeError) as e:
        raise BadRequest(str(e))


def mac_ok(req, key):
    ok, info = R.check_request_mac(req['raw'], key, req['version'])
    return ok, info


# ---------------------------------------------------------------- deterministic reference calendar
class Calendar:
    """A virtual calendar blockchain: right-link siblings (history) depend only on the aligned range they cover,
    so chains for the same second under different publication times agree on them, as in the real calendar."""

    def __init__(self, seed=b'cal'):
        self.seed = seed

    def _node(self, tag, *a):
        return R.H(1, self.seed + tag + b''.join(struct.pack('>Q', x) for x in a))

    def chain(self, t, p, input_hash, aggr_time_field=True):
        """CalChain for leaf t in the tree of publication time p."""
        dirs_top = []
        lo, pp = 0, p
        sibs_top = []
        tt = t
        while pp > 0:
            b = R.highbit(pp)
            if tt - lo < b:
                dirs_top.append(True)               # left link: sibling on the right covers lo+b..lo+pp (future)
                sibs_top.append(self._node(b'L', lo + b, lo + pp, p))
                pp = b - 1
            else:
                dirs_top.append(False)              # right link: sibling is the perfect tree lo..lo+b-1 (history)
                sibs_top.append(self._node(b'R', lo, b))
                lo += b
                pp -= b
        links = list(zip(reversed(dirs_top), reversed(sibs_top)))
        return R.CalChain(p, t if (aggr_time_field or t != p) else None, input_hash, links)


# ---------------------------------------------------------------- replies
def hdr_elem(login=b'anon', instance=None, message=None):
    k = [T(1, login + b'\0')]
    if instance is not None:
        k.append(T(2, uint(instance)))
    if message is not None:
        k.append(T(3, uint(message)))
    return T(1, k)


def wrap_v2(outer, payload, key, alg=1, login=b'anon', mac=True, header=True, mac_key=None, mac_alg=None, extra_after_mac=()):
    """v2 response PDU bytes. payload: list of T."""
    body = (hdr_elem(login).enc() if header else b'') + b''.join(p.enc() for p in payload)
    if not mac:
        return T(outer, body).enc() if False else _outer(outer, body)
    ma = alg if mac_alg is None else mac_alg
    dl = R.alg_len(ma)
    tail = b''.join(e.enc() for e in extra_after_mac)
    total = len(body) + 2 + 1 + dl + len(tail)
    head = _outer_head(outer, total)
    pre = head + body + bytes([0x1f, 1 + dl, ma])
    import hmac as _h
    m = _h.new(key if mac_key is None else mac_key, pre, R.ALG[ma][0]).digest()
    return pre + m + tail


def _outer_head(tag, n):
    if tag <= 0x1f and n <= 0xff:
        return bytes([tag, n])
    return bytes([0x80 | tag >> 8, tag & 0xff, n >> 8, n & 0xff])


def _outer(tag, body):
    return _outer_head(tag, len(body)) + body


def wrap_v1(outer, ptag, payload_kids, key, alg=1, login=b'anon', mac=True, header=True, mac_key=None):
    h = hdr_elem(login)
    p = T(ptag, payload_kids)
    kids = ([h] if header else []) + [p]
    if mac:
        kids.append(T(0x1f, R.hmac_imprint(alg, key if mac_key is None else mac_key, h.enc() + p.enc())))
    return T(outer, kids).enc()


def aggr_payload(req_id, sig=None, status=0, errmsg=None, conf=None, ack=None):
    k = [T(1, uint(req_id))]
    if status is not None:
        k.append(T(4, uint(status)))
    if errmsg is not None:
        k.append(T(5, errmsg.encode() + b'\0'))
    if sig is not None:
        k += [c.tlv() for c in sig.chains]
        if sig.cal is not None:
            k.append(sig.cal.tlv())
        if sig.calauth is not None:
            k.append(sig.calauth if isinstance(sig.calauth, T) else R.cal_auth_record(*sig.calauth))
        if sig.pub is not None:
            pass   # aggregators do not return publication records
    return k


def aggr_response(req, sig, key, version=2, alg=1, status=0, req_id=None, errmsg=None, login=b'anon', **kw):
    rid = req['req_id'] if req_id is None else req_id
    k = aggr_payload(rid, sig, status, errmsg)
    if version == 2:
        return wrap_v2(AGGR_RESP_V2, [T(2, k)], key, alg, login, **kw)
    return wrap_v1(AGGR_V1, 0x202, k, key, alg, login, **kw)


def error_pdu(kind, version, key, status=0x101, msg='error', alg=1, login=b'anon', **kw):
    e = [T(4, uint(status)), T(5, msg.encode() + b'\0')]
    if version == 2:
        return wrap_v2(AGGR_RESP_V2 if kind == 'aggr' else EXT_RESP_V2, [T(3, e)], key, alg, login, **kw)
    return T(AGGR_V1 if kind == 'aggr' else EXT_V1, [T(0x203 if kind == 'aggr' else 0x303, e)]).enc()


def conf_elem(kind, version, max_level=None, aggr_algo=None, aggr_period=None, max_req=None, parents=(), cal_first=None, cal_last=None):
    k = []
    if kind == 'aggr':
        if max_level is not None:
            k.append(T(1, uint(max_level)))
        if aggr_algo is not None:
            k.append(T(2, uint(aggr_algo)))
        if aggr_period is not None:
            k.append(T(3, uint(aggr_period)))
        if max_req is not None:
            k.append(T(4, uint(max_req)))
        k += [T(0x10, p.encode() + b'\0') for p in parents]
    else:
        if max_req is not None:
            k.append(T(4, uint(max_req)))
        k += [T(0x10, p.encode() + b'\0') for p in parents]
        if cal_first is not None:
            k.append(T(0x11, uint(cal_first)))
        if cal_last is not None:
            k.append(T(0x12, uint(cal_last)))
    return T(4, k)


def ext_payload(req_id, cal=None, status=0, errmsg=None, last_time=None, version=2):
    k = [T(1, uint(req_id))]
    if status is not None:
        k.append(T(4, uint(status)))
    if errmsg is not None:
        k.append(T(5, errmsg.encode() + b'\0'))
    if last_time is not None:
        k.append(T(0x12 if version == 2 else 0x10, uint(last_time)))
    if cal is not None:
        k.append(cal.tlv() if not isinstance(cal, T) else cal)
    return k


def ext_response(req, cal, key, version=2, alg=1, status=0, req_id=None, errmsg=None, last_time=None, login=b'anon', **kw):
    rid = req['req_id'] if req_id is None else req_id
    k = ext_payload(rid, cal, status, errmsg, last_time, version)
    if version == 2:
        return wrap_v2(EXT_RESP_V2, [T(2, k)], key, alg, login, **kw)
    return wrap_v1(EXT_V1, 0x302, k, key, alg, login, **kw)


def honest_signature_for(rng, req_hash, level, time=None, with_cal=True, anchor='auth', nchains=None):
    """What an honest aggregator returns for (hash, level): chains starting at that hash, first link correction = level."""
    algs_ok = req_hash[0]
    s = gen.gen_signature(rng, first_corr=level if level else rng.choice([None, 0]), with_cal=with_cal, anchor=anchor if with_cal else None,
                          rfc=False, doc_imprint=req_hash, time=time, nchains=nchains)
    return s
