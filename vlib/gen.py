"""Reference aggregator / calendar: builds honest signatures with random tree shapes, and semantic mutants."""
import random
from . import refksi as R
from .refksi import T, Link, AggrChain, CalChain, Sig, Rfc3161

SIB_ALGS = (1, 1, 1, 1, 0, 2, 4, 5)


def rnd_bytes(rng, n):
    return bytes(rng.getrandbits(8) for _ in range(n))


def rnd_imprint(rng, alg=None, algs=SIB_ALGS):
    a = rng.choice(algs) if alg is None else alg
    return bytes([a]) + rnd_bytes(rng, R.alg_len(a))


NAMES = ['GT', 'A', 'aggregator-1', 'client.example', 'tõnu', 'x' * 25, 'anon', 'node:7']


def rnd_sibling(rng, allow_meta=True):
    k = rng.random()
    if k < 0.62 or not allow_meta:
        return ('imprint', rnd_imprint(rng))
    if k < 0.75:
        return ('legacy', R.legacy_id(rng.choice(NAMES)))
    kw = dict(client=rng.choice(NAMES))
    if rng.random() < 0.1:
        # element lengths around the short/long header boundary (client id, metadata and link payloads of 253..258 bytes)
        kw['client'] = 'c' * rng.randrange(236, 260)
    if rng.random() < 0.5:
        kw['machine'] = rng.choice(NAMES)
    if rng.random() < 0.5:
        kw['seq'] = rng.choice([0, 1, 255, 256, 2 ** 32, 2 ** 63])
    if rng.random() < 0.5:
        kw['reqtime'] = rng.randrange(1, 2 ** 52)
    pad = 'auto' if rng.random() < 0.7 else None
    kids = R.metadata(padding=pad, **kw)
    if pad is None:
        payload = b''.join(c.enc() for c in kids)
        if payload and R.alg_len(payload[0]) and len(payload) == 1 + R.alg_len(payload[0]):
            kids = R.metadata(padding='auto', **kw)
    return ('meta', kids)


def gen_links(rng, n, level_budget):
    """n links with random directions/siblings/corrections; total level increase <= level_budget"""
    links = []
    spare = max(0, level_budget - n)
    for i in range(n):
        corr = None
        r = rng.random()
        if r < 0.25 and spare > 0:
            c = rng.randint(0, min(spare, 12)) if rng.random() < 0.9 else rng.randint(0, spare)
            spare -= c
            corr = c
        elif r < 0.30:
            corr = 0
        links.append(Link(rng.random() < 0.5, rnd_sibling(rng), corr))
    return links


def gen_signature(rng, nchains=None, with_cal=None, anchor=None, rfc=None, time=None, doc_alg=None, pub_time=None, long_chain=False, deprecated=None, first_corr=None, doc_data=None, doc_imprint=None, calendar=None):
    """Honest signature (internally consistent by construction). Returns Sig with .doc (imprint) and .info dict."""
    if time is None:
        time = rng.choice([1136073600 + rng.randrange(0, 330000000), 1467331200 + rng.randrange(0, 300000000), 1467331199, 1467331200, rng.randrange(1, 2 ** 31)])
    if deprecated:
        time = R.SHA1_DEPRECATED_FROM + rng.choice([0, 1, rng.randrange(0, 300000000), rng.randrange(0, 300000000)])
        if rng.random() < 0.25:
            # far beyond any date: on both sides of 2^63 and at the end of the 64-bit range (no calendar chain: no later publication time exists)
            time = rng.choice([2 ** 63 - 1, 2 ** 63, 2 ** 63 + rng.randrange(1, 10 ** 9), 2 ** 64 - 1])
            with_cal = False
        if deprecated.startswith('rfc'):
            rfc = True
        if deprecated == 'doc':
            rfc = False
            doc_alg = 0
    sha1_ok = time < R.SHA1_DEPRECATED_FROM
    algs = [1, 1, 1, 2, 4, 5] + ([0] if sha1_ok else [])
    if doc_alg is None:
        doc_alg = rng.choice(algs)
    nch = nchains or rng.choice([1, 1, 2, 2, 3, 3, 4, 5])
    if rfc is None:
        rfc = rng.random() < 0.12
    # link counts
    counts = [rng.randint(1, 12) if rng.random() < 0.9 else rng.randint(13, 40) for _ in range(nch)]
    if long_chain:
        counts[rng.randrange(nch)] = rng.choice([60, 61, 62, 63])
    budget = 255
    if first_corr is not None:
        # everything above the first link has to fit below level 255
        room = 255 - first_corr
        if room < nch:
            nch = max(1, room)
            counts = counts[:nch]
        if room < 1:
            raise ValueError('level budget exhausted')
        while sum(counts) > room:
            j = max(range(len(counts)), key=lambda x: counts[x])
            counts[j] -= 1
        if min(counts) < 1:
            raise ValueError('level budget exhausted')
    chains = []
    doc = rnd_imprint(rng, doc_alg) if doc_data is None else R.H(doc_alg, doc_data)
    if doc_imprint is not None:
        doc = doc_imprint
    cur = doc
    rfcrec = None
    if rfc:
        ta, sa = rng.choice(algs), rng.choice(algs)
        first_alg = rng.choice(algs)
        if deprecated == 'rfc_tst':
            ta = 0
        if deprecated == 'rfc_sig':
            sa = 0
        if deprecated == 'rfc_out':
            first_alg = 0
        rfcrec = Rfc3161(time, [], doc, rnd_bytes(rng, rng.randint(0, 40)), rnd_bytes(rng, rng.randint(0, 40)), ta,
                         rnd_bytes(rng, rng.randint(0, 40)), rnd_bytes(rng, rng.randint(0, 40)), sa)
        cur = rfcrec.output(first_alg)
    level = 0
    dep_chain = rng.randrange(nch)
    per = max(1, budget // nch)
    for i in range(nch):
        n = counts[i]
        lb = min(budget - level - (sum(counts[i + 1:])), max(n, per))
        links = gen_links(rng, n, max(n, lb))
        if first_corr is not None:
            for ln in links:
                ln.corr = None
            if i == 0:
                links[0].corr = first_corr
        if rfc and i == 0 and links[0].corr:
            pass
        algo = rng.choice(algs)
        if deprecated == 'chain' and i == dep_chain:
            algo = 0
        c = AggrChain(time, [], cur, algo, links)
        out = c.output(level)
        tries = 0
        while out is None:   # level overflow: drop corrections
            for ln in links:
                ln.corr = None
            out = c.output(level)
            tries += 1
            if tries > 2:
                raise RuntimeError('cannot build chain')
        cur, level = out
        chains.append(c)
    # indexes: top chain has the shortest
    idx = []
    prefix_extra = [rng.randrange(1, 2 ** 20) for _ in range(rng.choice([0, 0, 1, 3]))]
    idx = list(prefix_extra)
    for c in reversed(chains):
        idx = idx + [R.shape_of(c.links)]
        c.index = list(idx)
    if rfcrec is not None:
        rfcrec.index = list(chains[0].index)
    s = Sig(chains, rfc=rfcrec)
    s.doc = doc
    s.root, s.root_level = cur, level
    if with_cal is None:
        with_cal = rng.random() < 0.85
    if with_cal:
        if pub_time is None:
            pub_time = time + rng.choice([0, 1, 7, rng.randrange(0, 3000000), rng.randrange(0, 2 ** 20)])
        dirs = R.cal_path(pub_time, time)
        if not dirs:     # pub_time == 0 == time: a calendar chain needs at least one link
            pub_time = time + 1
            dirs = R.cal_path(pub_time, time)
        links = []
        for left in dirs:
            a = rng.choice([1, 1, 1, 1, 1, 4, 5, 2] + ([0] if pub_time < R.SHA1_DEPRECATED_FROM else []))
            links.append((left, rnd_imprint(rng, a)))
        at = time if (time != pub_time or rng.random() < 0.5) else None
        s.cal = CalChain(pub_time, at, cur, links)
        if calendar is not None:
            s.cal = calendar.chain(time, pub_time, cur, aggr_time_field=at is not None)
        calroot = s.cal.root()
        if anchor is None:
            anchor = rng.choice(['pub', 'auth', 'none', 'pub', 'auth'])
        if anchor == 'pub':
            refs = [rng.choice(['ref', 'Financial Times, ISSN: 0307-1766', 'x', 'r' * rng.randrange(250, 260)])] * rng.choice([0, 1, 2])
            s.pub = R.pub_record(pub_time, calroot, refs=refs, uris=['http://x.y/z'] * rng.choice([0, 1]))
            s.pub_tuple = (pub_time, calroot)
        elif anchor == 'auth':
            s.calauth = R.cal_auth_record(pub_time, calroot, sigval=rnd_bytes(rng, 256), certid=rnd_bytes(rng, 4))
            s.calauth_tuple = (pub_time, calroot)
        s.calroot = calroot
    s.time = time
    return s


# ------------------------------------------------------------------ semantic mutators
def _flip(b, rng):
    i = rng.randrange(len(b))
    return b[:i] + bytes([b[i] ^ (1 << rng.randrange(8))]) + b[i + 1:]


def _flip_digest(imp, rng):
    return imp[:1] + _flip(imp[1:], rng)


def _other_alg_same_len(imp, rng):
    """the same digest octets under another algorithm id of the same digest length (SHA2-256 -> SHA3-256 / SM3, SHA-1 -> RIPEMD-160, ...): a
    different imprint although not one digest octet differs"""
    cands = [a for a, (_, ln) in R.ALG.items() if ln == len(imp) - 1 and a != imp[0]]
    if not cands:
        return None
    return bytes([rng.choice(cands)]) + imp[1:]


def mutants(s, rng):
    """Yield (name, mutated Sig deep-rebuilt) for one honest signature. Each mutator changes ONE thing; the expected
    verdict is computed by the reference evaluator on the re-parsed bytes, not assumed here."""
    import copy
    out = []

    def m(name, fn):
        c = copy.deepcopy(s)
        try:
            if fn(c) is False:
                return
        except (IndexError, ValueError):
            return
        out.append((name, c))

    n = len(s.chains)
    k = rng.randrange(n)

    def set_input(c):
        c.chains[k].input_hash = _flip_digest(c.chains[k].input_hash, rng)
        if k == 0 and c.rfc is None:
            return False   # changing the document hash alone keeps the signature consistent
    m('chain%d-input-hash' % k, set_input)

    def set_input_alg(c):
        nh = _other_alg_same_len(c.chains[k].input_hash, rng)
        if nh is None or (k == 0 and c.rfc is None):
            return False
        c.chains[k].input_hash = nh
    m('chain%d-input-hash-algorithm-id' % k, set_input_alg)

    def sib(c):
        ch = c.chains[k]
        ln = rng.choice(ch.links)
        if ln.sib[0] == 'imprint':
            ln.sib = ('imprint', _flip_digest(ln.sib[1], rng))
        elif ln.sib[0] == 'legacy':
            ln.sib = ('imprint', rnd_imprint(rng))
        else:
            ln.sib = ('imprint', rnd_imprint(rng))
    m('chain%d-sibling' % k, sib)

    def direction(c):
        ln = rng.choice(c.chains[k].links)
        ln.left = not ln.left
    m('chain%d-direction' % k, direction)

    def direction_and_index(c):
        ln = rng.choice(c.chains[k].links)
        ln.left = not ln.left
        sh = R.shape_of(c.chains[k].links)
        for j in range(0, k + 1):
            c.chains[j].index[len(c.chains[k].index) - 1] = sh
        if c.rfc is not None:
            c.rfc.index = list(c.chains[0].index)
    m('chain%d-direction-index-fixed' % k, direction_and_index)

    def corr(c):
        ln = rng.choice(c.chains[k].links)
        ln.corr = (ln.corr or 0) + rng.choice([1, 2, 255, 256, 2 ** 32, 2 ** 32 + 1, 2 ** 64 - 1 - (ln.corr or 0)])
    m('chain%d-level-correction' % k, corr)

    def corr_wrap(c):
        # correction increased by 2^32: a truncating implementation computes the same level
        ln = rng.choice(c.chains[k].links)
        ln.corr = (ln.corr or 0) + 2 ** 32
    m('chain%d-level-correction-2^32' % k, corr_wrap)

    def time_one(c):
        c.chains[k].aggr_time += rng.choice([1, -1, 86400])
    m('chain%d-aggr-time' % k, time_one)

    def time_all(c):
        d = rng.choice([1, -1, 3600])
        for ch in c.chains:
            ch.aggr_time += d
        if c.rfc is not None:
            c.rfc.aggr_time += d
    m('all-chains-aggr-time', time_all)

    def idx_last(c):
        c.chains[k].index[-1] ^= 1 << rng.randrange(max(1, c.chains[k].index[-1].bit_length()))
    m('chain%d-index-last' % k, idx_last)

    def idx_last_consistent(c):
        # change own shape value in this chain and all lower chains consistently (continuation stays fine)
        pos = len(c.chains[k].index) - 1
        nv = c.chains[k].index[-1] ^ (1 << rng.randrange(max(1, c.chains[k].index[-1].bit_length() - 1)))
        for j in range(0, k + 1):
            c.chains[j].index[pos] = nv
        if c.rfc is not None:
            c.rfc.index = list(c.chains[0].index)
    m('chain%d-index-shape-consistent' % k, idx_last_consistent)

    def idx_prefix(c):
        if len(c.chains[k].index) < 2:
            return False
        p = rng.randrange(len(c.chains[k].index) - 1)
        c.chains[k].index[p] += 1
    m('chain%d-index-prefix' % k, idx_prefix)

    def idx_short(c):
        if len(c.chains[k].index) < 2:
            return False
        del c.chains[k].index[rng.randrange(len(c.chains[k].index) - 1)]
    m('chain%d-index-short' % k, idx_short)

    def idx_long(c):
        c.chains[k].index.insert(rng.randrange(len(c.chains[k].index)), rng.randrange(1, 100))
    m('chain%d-index-long' % k, idx_long)

    def algo(c):
        cands = [a for a in (1, 2, 4, 5) if a != c.chains[k].algo]
        c.chains[k].algo = rng.choice(cands)
    m('chain%d-algo' % k, algo)

    def algo_sha1(c):
        if c.chains[k].algo == 0:
            return False
        c.chains[k].algo = 0
    m('chain%d-algo-sha1' % k, algo_sha1)

    def algo_unknown(c):
        c.chains[k].algo = rng.choice([3, 6, 7, 10, 11, 12, 0x7e, 0xff, 0x100, 0x101, 2 ** 32 + 1])
    m('chain%d-algo-unknown' % k, algo_unknown)

    def links64(c):
        # the top chain grown to exactly 64 links (shape: 65 bits, no index element can hold it) with the index a 64-bit accumulator would come out
        # with when the leading one falls off; only where nothing above the chain would contradict it anyway
        if c.cal is not None or len(c.chains[-1].links) >= 64:
            return False
        ch = c.chains[-1]
        while len(ch.links) < 64:
            ch.links.append(Link(rng.random() < 0.5, ('imprint', rnd_imprint(rng)), None))
        nv = R.shape_of(ch.links) & (2 ** 64 - 1)
        for ch2 in c.chains:
            ch2.index[len(c.chains[-1].index) - 1] = nv
        if c.rfc is not None and len(c.chains) == 1:
            c.rfc.index = list(ch.index)
    m('top-chain-64-links', links64)

    def reorder_chains(c):
        # the same signature with its aggregation chains written in another order: the order of the elements carries no meaning, the verdict is
        # that of the honest signature (the reference parser orders chains by the length of their index)
        if n < 2:
            return False
        order = list(range(n))
        while order == list(range(n)):
            rng.shuffle(order)
        c.chains = [c.chains[i] for i in order]
    m('chains-written-in-another-order', reorder_chains)

    def drop_chain(c):
        if n < 2:
            return False
        del c.chains[rng.randrange(n)]
    m('drop-chain', drop_chain)

    def swap_chain_content(c):
        if n < 2:
            return False
        i = rng.randrange(n - 1)
        c.chains[i].links, c.chains[i + 1].links = c.chains[i + 1].links, c.chains[i].links
    m('swap-links-of-two-chains', swap_chain_content)

    def meta_pad(c):
        cands = [ln for ch in c.chains for ln in ch.links if ln.sib[0] == 'meta' and ln.sib[1][0].tag == 0x1e]
        if not cands:
            return False
        ln = rng.choice(cands)
        kids = [x.copy() for x in ln.sib[1]]
        how = rng.randrange(6)
        if how == 0:
            kids[0].nc = False
        elif how == 1:
            kids[0].fw = False
        elif how == 2:
            kids[0].val = b'\x02' if len(kids[0].val) == 1 else b'\x01\x02'
        elif how == 3:
            kids[0].val = b'\x01\x01' if len(kids[0].val) == 1 else b'\x01'
        elif how == 4:
            kids[0].long = True
        else:
            kids[0].val = b'\x02\x01' if len(kids[0].val) == 2 else b'\x00'
        ln.sib = ('meta', kids)
    m('metadata-padding', meta_pad)

    def meta_as_imprint(c):
        # metadata without padding whose bytes look like an imprint: client id of 28 bytes + NUL: 01 1d ... total = 2 + 29 = 31? build exactly 33 bytes starting with 0x01
        cands = [ln for ch in c.chains for ln in ch.links]
        ln = rng.choice(cands)
        # payload = 01 1f <31 bytes incl NUL> = 33 bytes, first byte 0x01 = SHA-256 id, length 33 -> looks like an imprint
        ln.sib = ('meta', [T(1, b'a' * 30 + b'\0')])
    m('metadata-looks-like-imprint', meta_as_imprint)

    def doc_sha1(c):
        # document hash algorithm SHA-1 while the time is after the deprecation date (or the reverse direction is valid)
        if c.rfc is not None or c.chains[0].input_hash[0] == 0:
            return False
        c.chains[0].input_hash = rnd_imprint(rng, 0)
    m('doc-hash-sha1', doc_sha1)

    if s.cal is not None:
        def cal_input(c):
            c.cal.input_hash = _flip_digest(c.cal.input_hash, rng)
        m('cal-input-hash', cal_input)

        def cal_aggr_time(c):
            c.cal.aggr_time = c.cal.eff_aggr_time() + rng.choice([1, -1, 2 ** 20])
        m('cal-aggr-time', cal_aggr_time)

        def cal_pub_time(c):
            c.cal.pub_time += rng.choice([1, -1, 2 ** 16, 2 ** 33])
            if c.cal.aggr_time is None:
                c.cal.aggr_time = c.cal.pub_time
        m('cal-pub-time', cal_pub_time)

        def cal_dir(c):
            i = rng.randrange(len(c.cal.links))
            l, sb = c.cal.links[i]
            c.cal.links[i] = (not l, sb)
        m('cal-direction', cal_dir)

        def cal_sib(c):
            i = rng.randrange(len(c.cal.links))
            l, sb = c.cal.links[i]
            c.cal.links[i] = (l, _flip_digest(sb, rng))
        m('cal-sibling', cal_sib)

        def cal_drop(c):
            if len(c.cal.links) < 2:
                return False
            del c.cal.links[rng.randrange(len(c.cal.links))]
        m('cal-drop-link', cal_drop)

        def cal_add(c):
            c.cal.links.insert(rng.randrange(len(c.cal.links) + 1), (rng.random() < 0.5, rnd_imprint(rng, 1)))
        m('cal-add-link', cal_add)

        def cal_consistent_other_time(c):
            # rebuild a completely consistent calendar chain for another registration time: only INT-04 is violated
            nt = c.cal.eff_aggr_time() + rng.choice([1, -1])
            if nt < 0 or nt > c.cal.pub_time:
                return False
            dirs = R.cal_path(c.cal.pub_time, nt)
            if not dirs:
                return False
            c.cal.links = [(l, rnd_imprint(rng, 1)) for l in dirs]
            c.cal.aggr_time = nt
            root = c.cal.root()
            if c.pub is not None:
                c.pub = R.pub_record(c.cal.pub_time, root)
            if c.calauth is not None:
                c.calauth = R.cal_auth_record(c.cal.pub_time, root)
        m('cal-consistent-for-other-time', cal_consistent_other_time)

    if s.pub is not None:
        def pub_hash(c):
            t, h = c.pub_tuple
            c.pub = R.pub_record(t, _flip_digest(h, rng))
        m('pub-hash', pub_hash)

        def pub_time(c):
            t, h = c.pub_tuple
            c.pub = R.pub_record(t + rng.choice([1, -1, 86400]), h)
        m('pub-time', pub_time)
        def pub_hash_alg(c):
            t, h = c.pub_tuple
            nh = _other_alg_same_len(h, rng)
            if nh is None:
                return False
            c.pub = R.pub_record(t, nh)
        m('pub-hash-algorithm-id', pub_hash_alg)
    if s.calauth is not None:
        def auth_hash_alg(c):
            t, h = c.calauth_tuple
            nh = _other_alg_same_len(h, rng)
            if nh is None:
                return False
            c.calauth = R.cal_auth_record(t, nh)
        m('auth-hash-algorithm-id', auth_hash_alg)

        def auth_hash(c):
            t, h = c.calauth_tuple
            c.calauth = R.cal_auth_record(t, _flip_digest(h, rng))
        m('auth-hash', auth_hash)

        def auth_time(c):
            t, h = c.calauth_tuple
            c.calauth = R.cal_auth_record(t + rng.choice([1, -1, 86400]), h)
        m('auth-time', auth_time)
    if s.rfc is not None:
        def rfc_field(c):
            f = rng.choice(['tst_prefix', 'tst_suffix', 'sig_prefix', 'sig_suffix'])
            v = getattr(c.rfc, f)
            setattr(c.rfc, f, _flip(v, rng) if v else b'\x00')
        m('rfc-prefix-suffix', rfc_field)

        def rfc_input(c):
            c.rfc.input_hash = _flip_digest(c.rfc.input_hash, rng)
        m('rfc-input-hash', rfc_input)

        def rfc_time(c):
            c.rfc.aggr_time += rng.choice([1, -1])
        m('rfc-aggr-time', rfc_time)

        def rfc_time_hi(c):
            # differs from the chains' time only above bit 31
            c.rfc.aggr_time += rng.choice([1, 2, 3, 0x7fffffff, 0xffffffff]) << 32 if rng.random() < 0.8 else -(1 << 32)
            if c.rfc.aggr_time < 0:
                c.rfc.aggr_time += 2 << 32
        m('rfc-aggr-time-high-bits', rfc_time_hi)

        def rfc_index_hi(c):
            c.rfc.index[rng.randrange(len(c.rfc.index))] += rng.choice([1, 2, 3, 0x7fffffff]) << 32
        m('rfc-index-high-bits', rfc_index_hi)

        def rfc_index(c):
            if rng.random() < 0.5:
                c.rfc.index[rng.randrange(len(c.rfc.index))] += 1
            else:
                c.rfc.index.append(1)
        m('rfc-index', rfc_index)

        def rfc_algo(c):
            f = rng.choice(['tst_algo', 'sig_algo'])
            setattr(c.rfc, f, rng.choice([a for a in (0, 1, 2, 4, 5) if a != getattr(c.rfc, f)]))
        m('rfc-algo', rfc_algo)

        def rfc_algo_bad(c):
            f = rng.choice(['tst_algo', 'sig_algo'])
            setattr(c.rfc, f, rng.choice([3, 6, 7, 0x100, 0x101]))
        m('rfc-algo-unknown', rfc_algo_bad)
    return out
