"""Python side of harness/ksi_exec: drives the interactive op interpreter, acts as the reference server."""
import threading, time, os, subprocess, tempfile
from . import core


class ExecCrashed(Exception):
    def __init__(self, msg, stderr='', rc=None, last=''):
        Exception.__init__(self, msg)
        self.stderr, self.rc, self.last = stderr, rc, last


class ExecSpin(ExecCrashed):
    """the command never returned although the transport answered every one of its calls"""


EVENT_LIMIT = 400000
CMD_WALL_LIMIT = 1500


class ExecTimeout(ExecCrashed):
    """wall-clock watchdog fired: inconclusive"""


class Result(dict):
    @property
    def rc(self):
        return int(self['rc'])

    def __getattr__(self, k):
        try:
            return self[k]
        except KeyError:
            raise AttributeError(k)


def build(ctx, kind='asan'):
    return ctx.driver('ksi_exec', ['ksi_exec.c', 'ksi_exec_net.c'], kind=kind, curl='sim', extra_cflags=(['-DKX_FAILPOINTS'] if kind in ('asanfp', 'plainfp') else []), extra_ld=(['-no-pie'] if kind in ('asanfp', 'plainfp') else []),
                      wraps=['time', 'socket', 'connect', 'ioctl', 'setsockopt', 'poll', 'send', 'recv', 'close', 'getaddrinfo', 'freeaddrinfo', 'fopen'])


class Exec:
    """One ksi_exec process. ev_handler(event_tokens) -> answer line or None for events."""

    def __init__(self, exe, env=None, ev_handler=None, workdir=None):
        self.exe = exe
        self.ev = ev_handler
        self.errf = tempfile.TemporaryFile(dir=workdir)
        self.p = subprocess.Popen([exe], stdin=subprocess.PIPE, stdout=subprocess.PIPE, stderr=self.errf, env=env, cwd=workdir, bufsize=0)
        self.rd = os.fdopen(self.p.stdout.fileno(), 'rb', buffering=1 << 16, closefd=False)
        self.last = ''
        self.nops = 0
        self.events = []
        # wall-clock watchdog (generous; its firing makes the run inconclusive, never a violation): a command that neither returns nor calls the transport
        self._busy_since = None
        self._timed_out = False
        threading.Thread(target=self._watchdog, daemon=True).start()

    def _watchdog(self):
        while self.p.poll() is None:
            time.sleep(15)
            b = self._busy_since
            if b is not None and time.time() - b > CMD_WALL_LIMIT:
                self._timed_out = True
                try:
                    self.p.kill()
                except Exception:
                    pass
                return

    def _fail(self, what):
        try:
            self.p.stdin.close()
        except Exception:
            pass
        try:
            rc = self.p.wait(timeout=20)
        except subprocess.TimeoutExpired:
            self.p.kill()
            rc = self.p.wait()
        self.errf.seek(0)
        err = self.errf.read().decode('utf-8', 'replace')
        if self._timed_out:
            raise ExecTimeout('no answer within %d s of wall clock to: %s' % (CMD_WALL_LIMIT, self.last[:300]), err, rc, self.last)
        raise ExecCrashed(what, err, rc, self.last)

    def cmd(self, line):
        """Send one command, handle events, return Result."""
        self.last = line
        self.nops += 1
        self._busy_since = time.time()
        try:
            return self._cmd(line)
        finally:
            self._busy_since = None

    def _cmd(self, line):
        try:
            self.p.stdin.write(line.encode() + b'\n')
        except (BrokenPipeError, OSError):
            self._fail('write failed')
        self.events = []
        nev = 0
        while True:
            ln = self.rd.readline()
            if not ln:
                self._fail('EOF from ksi_exec')
            ln = ln.decode('utf-8', 'replace').rstrip('\n')
            if ln.startswith('! '):
                toks = ln[2:].split(' ')
                nev += 1
                if nev > EVENT_LIMIT:
                    # the library keeps calling into the transport without ever returning from the call: a spin, not a slow answer
                    # (logical bound, not a wall-clock one: no command of any check comes near this number of transport calls)
                    self.kill()
                    self.errf.seek(0)
                    err = self.errf.read().decode('utf-8', 'replace')
                    raise ExecSpin('more than %d transport calls without returning from: %s' % (EVENT_LIMIT, line[:200]), err, None, self.last)
                if len(self.events) < 5000:
                    self.events.append(toks)
                if self.ev is not None:
                    ans = self.ev(toks)
                    if ans is not None:
                        try:
                            self.p.stdin.write(ans.encode() + b'\n')
                        except (BrokenPipeError, OSError):
                            self._fail('write failed')
                continue
            if ln.startswith('= '):
                r = Result()
                for kvp in ln[2:].split(' '):
                    if '=' in kvp:
                        k, v = kvp.split('=', 1)
                        r[k] = v
                return r
            if ln.startswith('# ') and os.environ.get('KX_SHOWLOG'):
                print(ln)
            # stray output: ignore

    def close(self):
        """Orderly shutdown; returns (rc, stderr). LeakSanitizer output appears here."""
        try:
            self.p.stdin.write(b'quit\n')
            self.p.stdin.close()
        except Exception:
            pass
        try:
            rc = self.p.wait(timeout=60)
        except subprocess.TimeoutExpired:
            self.p.kill()
            rc = self.p.wait()
        self.errf.seek(0)
        err = self.errf.read().decode('utf-8', 'replace')
        self.errf.close()
        return rc, err

    def kill(self):
        try:
            self.p.kill()
            self.p.wait()
        except Exception:
            pass


def hx(b):
    return b.hex() if b else '-'


_sym_cache = {}


def symbolize(exe, addrs):
    """addresses (hex strings) -> function names via addr2line (the failpoint driver is linked -no-pie)"""
    import subprocess
    todo = [a for a in addrs if (exe, a) not in _sym_cache]
    if todo:
        out = subprocess.run(['addr2line', '-f', '-e', exe] + todo, stdout=subprocess.PIPE).stdout.decode().splitlines()
        for i, a in enumerate(todo):
            _sym_cache[(exe, a)] = out[2 * i] if 2 * i < len(out) else '?'
    return [_sym_cache[(exe, a)] for a in addrs]
