"""Session: one ksi_exec process plus the python reference server bookkeeping for transport events."""
from . import kexec


def kvs(toks):
    return dict(t.split('=', 1) for t in toks[1:] if '=' in t)


class Session:
    def __init__(self, exe, env, work, responder=None):
        self.http = []          # blocking http requests seen: dict(url, body, ...)
        self.http_async = {}    # easy id -> dict
        self.tcp = {}           # fd -> dict(host, port, sent=bytearray, open=True, nonblock)
        self.tcp_order = []
        self.resolved = []
        self.wouldblock = 0
        self.conf_callbacks = []
        self.fopens = []
        self.responder = responder   # callable(session, kind, info) -> answer string for waiting events
        self.ex = kexec.Exec(exe, env=env, workdir=work, ev_handler=self.on_event)
        self.cmd = self.ex.cmd

    def on_event(self, toks):
        k = toks[0]
        kv = kvs(toks)
        if k == 'http':
            info = dict(id=int(kv['id']), url=kv['url'], body=bytes.fromhex(kv['body']) if kv['body'] != '-' else b'', post=kv['post'], ct=kv['ct'], to=kv['to'], hdr=kv['hdr'])
            self.http.append(info)
            return self.responder(self, 'http', info) if self.responder else 'none'
        if k == 'http_async':
            info = dict(id=int(kv['id']), url=kv['url'], body=bytes.fromhex(kv['body']) if kv['body'] != '-' else b'', post=kv['post'], done=False)
            self.http_async[info['id']] = info
            return None
        if k == 'resolve':
            self.resolved.append((kv['host'], kv['port']))
            return None
        if k == 'tcp_open':
            fd = int(kv['fd'])
            self.tcp[fd] = dict(fd=fd, host=kv['host'], port=kv['port'], sent=bytearray(), open=True, nonblock=kv['nonblock'] == '1', seq=len(self.tcp_order))
            self.tcp_order.append(self.tcp[fd])
            return None
        if k == 'tcp_send':
            self.tcp[int(kv['fd'])]['sent'] += bytes.fromhex(kv['hex'])
            return None
        if k == 'tcp_close':
            fd = int(kv['fd'])
            if fd in self.tcp:
                self.tcp[fd]['open'] = False
                self.tcp[fd]['unread_at_close'] = int(kv['unread'])
                # keep the record under a unique key, the fd number may be reused
                rec = self.tcp.pop(fd)
                self.tcp['closed-%d' % rec['seq']] = rec
            return None
        if k == 'tcp_wouldblock':
            self.wouldblock += 1
            return None
        if k == 'tcp_senderr':
            return None
        if k == 'tcp_block':
            fd = int(kv['fd'])
            return self.responder(self, 'tcp_block', self.tcp[fd]) if self.responder else 'timeout'
        if k == 'fopen':
            self.fopens.append(kv.get('path'))
            return None
        if k == 'tcp_connect_blocked':
            self.connect_blocked = getattr(self, 'connect_blocked', 0) + 1
            return None
        if k == 'http_fault_fired':
            self.http_faults_fired = getattr(self, 'http_faults_fired', 0) + 1
            return None
        if k == 'conf_callback':
            self.conf_callbacks.append(toks[1] if len(toks) > 1 else '')
            return None
        return None

    def close(self):
        return self.ex.close()
