"""Declarative KSI schema, value lexers, a generic acceptor and a position-exhaustive mutation generator (C10).

The table below is written from the KSI format as documented by the SDK's template tables READ AS A FORMAT SPECIFICATION
(tags, value kinds, multiplicities, groups, positions) and from the statement of property C10. The acceptor that interprets
the table is generic code of this project: it works on bytes with refksi's TLV reader and shares nothing with the SDK's
template interpreter. Verdicts are three valued: ACCEPT, REJECT, SKIP (the property text does not decide the case).
"""
from .refksi import T, read_tlv, read_all, TlvError, ALG

ACCEPT, REJECT, SKIP = 'accept', 'reject', 'skip'
PUB_MAGIC = b'KSIPUBLF'

# value kinds
INT, TIME, IMPRINT, OCTETS, UTF8, UTF8NZ, LEGACY, COMP, DER, OOD = 'int', 'time', 'imprint', 'octets', 'utf8', 'utf8nz', 'legacy', 'composite', 'der', 'out-of-domain'
N = None    # unbounded


class E:
    """one element of a composite: tag, value kind, min/max occurrences, nested schema, exclusive / at-least-one group, position"""
    __slots__ = ('tag', 'kind', 'min', 'max', 'sub', 'excl', 'least', 'pos', 'order', 'flags_ok', 'name')

    def __init__(self, tag, kind, lo=0, hi=1, sub=None, excl=None, least=None, pos=None, order=None, flags_ok=False, name=''):
        self.tag, self.kind, self.min, self.max, self.sub = tag, kind, lo, hi, sub
        self.excl, self.least, self.pos, self.order, self.flags_ok, self.name = excl, least, pos, order, flags_ok, name


class Schema:
    def __init__(self, name, entries, domain_skips=(), unknown_after_last='ignored', requires=()):
        self.name, self.entries = name, entries
        self.bytag = {e.tag: e for e in entries}
        assert len(self.bytag) == len(entries)
        self.excl, self.least = {}, {}
        for e in entries:
            if e.excl:
                self.excl.setdefault(e.excl, []).append(e.tag)
            if e.least:
                self.least.setdefault(e.least, []).append(e.tag)
        self.domain_skips = list(domain_skips)
        self.requires = list(requires)      # (name, predicate over the child counts): an element that needs another one to be present
        self.unknown_after_last = unknown_after_last
        self.alphabet = [e.tag for e in entries]


SCHEMAS = {}


def schema(name, *entries, **kw):
    SCHEMAS[name] = Schema(name, list(entries), **kw)


# ------------------------------------------------------------------ the table
schema('pki_signed_data',
       E(0x01, UTF8, 1, 1, name='sig_type'), E(0x02, OCTETS, 1, 1, name='signature_value'), E(0x03, OCTETS, 1, 1, name='cert_id'),
       E(0x04, UTF8NZ, 0, 1, name='cert_rep_uri'))
schema('publication_data', E(0x02, TIME, 1, 1, name='pub_time'), E(0x04, IMPRINT, 1, 1, name='pub_hash'))
schema('publication_record',
       E(0x10, COMP, 1, 1, sub='publication_data', name='published_data'), E(0x09, UTF8NZ, 0, N, name='pub_ref'), E(0x0a, UTF8NZ, 0, N, name='rep_uri'))
schema('metadata',
       E(0x1e, OCTETS, 0, 1, pos='first', flags_ok=True, name='padding'), E(0x01, UTF8, 1, 1, name='client_id'), E(0x02, UTF8, 0, 1, name='machine_id'),
       E(0x03, INT, 0, 1, name='seq_nr'), E(0x04, TIME, 0, 1, name='req_time'))
schema('aggr_link',
       E(0x01, INT, 0, 1, name='level_correction'),
       E(0x02, IMPRINT, 0, 1, excl='sibling', least='sibling', name='sibling_hash'),
       E(0x03, LEGACY, 0, 1, excl='sibling', least='sibling', name='legacy_id'),
       E(0x04, COMP, 0, 1, sub='metadata', excl='sibling', least='sibling', name='metadata'))
schema('aggr_chain',
       E(0x02, TIME, 1, 1, name='aggr_time'), E(0x03, INT, 1, N, name='chain_index'), E(0x04, OCTETS, 0, 1, name='input_data'),
       E(0x05, IMPRINT, 1, 1, name='input_hash'), E(0x06, INT, 1, 1, name='aggr_algo'),
       E(0x07, COMP, 0, N, sub='aggr_link', least='links', name='left_link'), E(0x08, COMP, 0, N, sub='aggr_link', least='links', name='right_link'))
schema('cal_chain',
       E(0x01, TIME, 1, 1, name='pub_time'), E(0x02, TIME, 0, 1, name='aggr_time'), E(0x05, IMPRINT, 1, 1, name='input_hash'),
       E(0x07, IMPRINT, 0, N, least='links', name='left_link'), E(0x08, IMPRINT, 0, N, least='links', name='right_link'))
schema('cal_auth_rec', E(0x10, COMP, 1, 1, sub='publication_data', name='published_data'), E(0x0b, COMP, 1, 1, sub='pki_signed_data', name='signed_data'))
schema('rfc3161',
       E(0x02, TIME, 1, 1, name='aggr_time'), E(0x03, INT, 1, N, name='chain_index'), E(0x05, IMPRINT, 1, 1, name='input_hash'),
       E(0x10, OCTETS, 1, 1, name='tst_prefix'), E(0x11, OCTETS, 1, 1, name='tst_suffix'), E(0x12, INT, 1, 1, name='tst_algo'),
       E(0x13, OCTETS, 1, 1, name='sig_prefix'), E(0x14, OCTETS, 1, 1, name='sig_suffix'), E(0x15, INT, 1, 1, name='sig_algo'))
schema('signature',
       E(0x801, COMP, 1, N, sub='aggr_chain', name='aggr_chain'), E(0x802, COMP, 0, 1, sub='cal_chain', name='cal_chain'),
       E(0x803, COMP, 0, 1, sub='publication_record', excl='anchor', name='pub_rec'), E(0x804, OOD, 0, 1, name='aggr_auth_rec'),
       E(0x805, COMP, 0, 1, sub='cal_auth_rec', excl='anchor', name='cal_auth_rec'), E(0x806, COMP, 0, 1, sub='rfc3161', name='rfc3161'),
       # a publication record or calendar authentication record anchors the calendar chain: without the chain it is a signature no schema allows
       requires=[('anchor-without-calendar', lambda c: (c.get(0x803, 0) or c.get(0x805, 0)) and not c.get(0x802, 0))])

schema('pdu_header', E(0x01, UTF8, 1, 1, name='login_id'), E(0x02, INT, 0, 1, name='instance_id'), E(0x03, INT, 0, 1, name='message_id'))
schema('error_payload', E(0x04, INT, 1, 1, name='status'), E(0x05, UTF8, 0, 1, name='error_message'))
schema('config_v1', E(0x01, INT, name='max_level'), E(0x02, INT, name='aggr_algo'), E(0x03, INT, name='aggr_period'), E(0x04, UTF8, 0, N, name='parent_uri'))
schema('aggr_conf', E(0x01, INT, name='max_level'), E(0x02, INT, name='aggr_algo'), E(0x03, INT, name='aggr_period'), E(0x04, INT, name='max_requests'),
       E(0x10, UTF8, 0, N, name='parent_uri'))
schema('ext_conf', E(0x04, INT, name='max_requests'), E(0x10, UTF8, 0, N, name='parent_uri'), E(0x11, TIME, name='cal_first'), E(0x12, TIME, name='cal_last'))
schema('request_ack_v1', E(0x01, INT, 1, 1, name='aggr_period'), E(0x02, INT, 1, 1, name='aggr_delay'))
schema('aggr_ack_req', E(0x01, INT, name='req_time'))
schema('aggr_ack', E(0x01, TIME, name='req_time'), E(0x02, TIME, name='recv_time'), E(0x03, TIME, name='ack_time'), E(0x04, INT, name='aggr_delay'),
       E(0x05, INT, name='aggr_period'), E(0x06, INT, name='aggr_drift'))
schema('aggr_req_v1', E(0x01, INT, 1, 1, name='req_id'), E(0x02, IMPRINT, name='req_hash'), E(0x03, INT, name='req_level'), E(0x10, COMP, sub='config_v1', name='config'))
schema('aggr_req_v2', E(0x01, INT, 1, 1, name='req_id'), E(0x02, IMPRINT, 1, 1, name='req_hash'), E(0x03, INT, name='req_level'))
_RESP_COMMON = lambda: [E(0x01, INT, 1, 1, name='req_id'), E(0x04, INT, name='status'), E(0x05, UTF8, name='error_message')]
_RESP_SIG = lambda: [E(0x801, COMP, 0, N, sub='aggr_chain', name='aggr_chain'), E(0x802, COMP, sub='cal_chain', name='cal_chain'), E(0x804, OOD, name='aggr_auth_rec'),
                     E(0x805, COMP, sub='cal_auth_rec', name='cal_auth_rec')]
schema('aggr_resp_v1', *(_RESP_COMMON() + [E(0x10, COMP, sub='config_v1', name='config'), E(0x11, COMP, sub='request_ack_v1', name='req_ack')] + _RESP_SIG()))
schema('aggr_resp_v2', *(_RESP_COMMON() + _RESP_SIG()))
schema('aggr_pdu_v1',                                     # v1: neither header nor MAC is positionally constrained
       E(0x01, COMP, sub='pdu_header', name='header'),
       E(0x201, COMP, sub='aggr_req_v1', excl='payload', least='payload', name='aggr_req'), E(0x202, COMP, sub='aggr_resp_v1', excl='payload', least='payload', name='aggr_resp'),
       E(0x203, COMP, sub='error_payload', excl='payload', least='payload', name='aggr_error'), E(0x1f, IMPRINT, name='mac'))
schema('aggr_req_pdu_v2',
       E(0x01, COMP, sub='pdu_header', pos='first', name='header'), E(0x02, COMP, sub='aggr_req_v2', least='payload', name='aggr_req'),
       E(0x04, COMP, sub='aggr_conf', least='payload', name='conf_req'), E(0x05, COMP, sub='aggr_ack_req', least='payload', name='ack_req'),
       E(0x1f, IMPRINT, pos='last', name='mac'))
schema('aggr_resp_pdu_v2',
       E(0x01, COMP, sub='pdu_header', pos='first', name='header'), E(0x02, COMP, sub='aggr_resp_v2', least='payload', name='aggr_resp'),
       E(0x03, COMP, sub='error_payload', least='payload', name='error'), E(0x04, COMP, sub='aggr_conf', least='payload', name='conf'),
       E(0x05, COMP, sub='aggr_ack', least='payload', name='ack'), E(0x1f, IMPRINT, pos='last', name='mac'))
schema('ext_req', E(0x01, INT, 1, 1, name='req_id'), E(0x02, TIME, name='aggr_time'), E(0x03, TIME, name='pub_time'))
schema('ext_resp_v1', *(_RESP_COMMON() + [E(0x10, TIME, name='last_time'), E(0x802, COMP, sub='cal_chain', name='cal_chain')]))
schema('ext_resp_v2', *(_RESP_COMMON() + [E(0x12, TIME, name='cal_last'), E(0x802, COMP, sub='cal_chain', name='cal_chain')]))
schema('ext_pdu_v1',
       E(0x01, COMP, sub='pdu_header', name='header'),
       E(0x301, COMP, sub='ext_req', excl='payload', least='payload', name='ext_req'), E(0x302, COMP, sub='ext_resp_v1', excl='payload', least='payload', name='ext_resp'),
       E(0x303, COMP, sub='error_payload', excl='payload', least='payload', name='ext_error'), E(0x1f, IMPRINT, name='mac'))
schema('ext_req_pdu_v2',
       E(0x01, COMP, sub='pdu_header', pos='first', name='header'), E(0x02, COMP, sub='ext_req', least='payload', name='ext_req'),
       E(0x04, COMP, sub='ext_conf', least='payload', name='conf_req'), E(0x1f, IMPRINT, pos='last', name='mac'))
schema('ext_resp_pdu_v2',
       E(0x01, COMP, sub='pdu_header', pos='first', name='header'), E(0x02, COMP, sub='ext_resp_v2', least='payload', name='ext_resp'),
       E(0x03, COMP, sub='error_payload', least='payload', name='error'), E(0x04, COMP, sub='ext_conf', least='payload', name='conf'),
       E(0x1f, IMPRINT, pos='last', name='mac'))

schema('pubfile_header', E(0x01, INT, 1, 1, name='version'), E(0x02, TIME, 1, 1, name='time_created'), E(0x03, UTF8NZ, name='rep_uri'))
schema('cert_record', E(0x01, OCTETS, 1, 1, name='cert_id'), E(0x02, DER, 1, 1, name='certificate'))
schema('pubfile',                                         # sections in fixed order, the signature last
       E(0x701, COMP, 1, 1, sub='pubfile_header', order=0, name='header'), E(0x702, COMP, 0, N, sub='cert_record', order=1, name='cert_rec'),
       E(0x703, COMP, 0, N, sub='publication_record', order=2, name='pub_rec'), E(0x704, DER, 1, 1, order=3, pos='last', name='signature'),
       unknown_after_last='reject')       # "a single final PKI-signature record": an ignorable record after it would be unsigned

# roots: (object kind, PDU version) -> {top tag: schema}
ROOTS = {
    ('sig', 0): {0x800: 'signature'},
    ('aggr', 1): {0x200: 'aggr_pdu_v1'}, ('aggr', 2): {0x220: 'aggr_req_pdu_v2', 0x221: 'aggr_resp_pdu_v2'},
    ('ext', 1): {0x300: 'ext_pdu_v1'}, ('ext', 2): {0x320: 'ext_req_pdu_v2', 0x321: 'ext_resp_pdu_v2'},
}
TOP_TAGS = [0x800, 0x200, 0x220, 0x221, 0x300, 0x320, 0x321]


# ------------------------------------------------------------------ value lexers: -> (reject reasons, skip reasons)
def lex_int(b):
    if len(b) > 8:
        return ['int:too-long'], []
    if len(b) and b[0] == 0:
        return ['int:leading-zero'], []
    return [], []


def lex_utf8(b, nonempty=False):
    if len(b) == 0 or b[-1] != 0:
        return ['utf8:no-terminator'], []
    body = b[:-1]
    if 0 in body:
        return ['utf8:embedded-nul'], []
    i, n = 0, len(body)
    while i < n:
        c = body[i]
        if c < 0x80:
            i += 1
            continue
        if c <= 0xbf:
            return ['utf8:stray-continuation'], []
        if c <= 0xdf:
            need = 1
        elif c <= 0xef:
            need = 2
        elif c <= 0xf4:
            need = 3
        elif c <= 0xf7:
            return [], ['utf8:lead-f5-f7']            # documented neither way: not judged
        else:
            return ['utf8:lead-f8-ff'], []
        if i + need > n - 1:
            return ['utf8:truncated-sequence'], []
        for j in range(1, need + 1):
            if not 0x80 <= body[i + j] <= 0xbf:
                return ['utf8:truncated-sequence'], []
        nx = body[i + 1]
        if c in (0xc0, 0xc1) or (c == 0xe0 and nx < 0xa0) or (c == 0xf0 and nx < 0x90):
            return [], ['utf8:overlong']
        if c == 0xed and nx >= 0xa0:
            return [], ['utf8:surrogate']
        if c == 0xf4 and nx >= 0x90:
            return [], ['utf8:beyond-10ffff']
        i += 1 + need
    if nonempty and n == 0:
        return ['utf8:empty-not-allowed'], []
    return [], []


def lex_imprint(b):
    if len(b) == 0:
        return ['imprint:empty'], []
    if b[0] not in ALG:
        return ['imprint:unknown-algorithm'], []
    if len(b) != 1 + ALG[b[0]][1]:
        return ['imprint:length'], []
    return [], []


def lex_legacy(b):
    if len(b) != 29:
        return ['legacy:length'], []
    if b[0] != 3 or b[1] != 0:
        return ['legacy:header'], []
    n = b[2]
    if n > 25:
        return ['legacy:name-length'], []
    if any(b[3 + n:]):
        return ['legacy:padding'], []
    name = b[3:3 + n]
    if n == 0:
        return [], ['legacy:empty-name']
    if 0 in name:
        return [], ['legacy:nul-in-name']
    r, s = lex_utf8(name + b'\0')
    if r or s:
        return [], ['legacy:name-not-plain-utf8']
    return [], []


# ------------------------------------------------------------------ the generic acceptor
class Acceptor:
    """accept <=> schema satisfied. der_ok: byte strings known to be well-formed DER objects (never judged otherwise)."""

    def __init__(self, der_ok=()):
        self.der_ok = set(der_ok)
        self.cache = {}

    def _value(self, e, val):
        k = e.kind
        if k == COMP:
            return self.composite(e.sub, val)
        if k in (INT, TIME):
            return lex_int(val)
        if k == IMPRINT:
            return lex_imprint(val)
        if k == UTF8:
            return lex_utf8(val)
        if k == UTF8NZ:
            return lex_utf8(val, True)
        if k == LEGACY:
            return lex_legacy(val)
        if k == OCTETS:
            return [], []
        if k == DER:
            return ([], []) if val in self.der_ok else ([], ['der:content-not-judged'])
        return [], ['out-of-domain:' + e.name]

    def composite(self, sname, payload):
        key = (sname, payload)
        r = self.cache.get(key)
        if r is None:
            r = self.cache[key] = self._composite(SCHEMAS[sname], payload)
        return r

    def _composite(self, S, payload):
        try:
            kids = read_all(payload)
        except TlvError:
            return ['tlv:children-do-not-tile'], []
        return self.sequence(S, kids)

    def sequence(self, S, kids):
        rej, skp, cnt = [], [], {}
        seen_known = last_seen = False
        max_order = -1
        for c in kids:
            e = S.bytag.get(c.tag)
            if e is None:
                if not c.nc:
                    rej.append('unknown-critical')
                elif last_seen and S.unknown_after_last == 'reject':
                    rej.append('position:after-last')      # nothing may follow the final element, not even an ignorable one
                elif last_seen and S.unknown_after_last != 'ignored':
                    skp.append('unknown-after-last')
                continue
            if (c.nc or c.fw) and not e.flags_ok:
                skp.append('flagged-known')
            cnt[c.tag] = cnt.get(c.tag, 0) + 1
            if c.nc and e.max is not None and cnt[c.tag] > e.max:
                rej.append('repeat-nc-flagged')      # a repeat whose later occurrence carries the non-critical flag (still a repeat; own reason for the witness class)
            if e.pos == 'first' and seen_known:
                rej.append('position:not-first')
            if last_seen:
                rej.append('position:after-last')
            if e.pos == 'last':
                last_seen = True
            if e.order is not None:
                if e.order < max_order:
                    rej.append('position:order')
                else:
                    max_order = e.order
            seen_known = True
            a, b = self._value(e, c.val)
            rej += a
            skp += b
        for e in S.entries:
            n = cnt.get(e.tag, 0)
            if n < e.min:
                rej.append('missing')
            if e.max is not None and n > e.max:
                rej.append('repeat')
        for g, tags in S.excl.items():
            if sum(cnt.get(t, 0) for t in tags) > 1:
                rej.append('exclusive')
        for g, tags in S.least.items():
            if sum(cnt.get(t, 0) for t in tags) == 0:
                rej.append('group-empty')
        for name, fn in S.domain_skips:
            if fn(cnt):
                skp.append(name)
        for name, fn in S.requires:
            if fn(cnt):
                rej.append(name)
        return rej, skp

    def root(self, kind, version, raw):
        """-> (rej, skp) for a whole object. kind: sig|aggr|ext|pubfile"""
        if kind == 'pubfile':
            if raw[:8] != PUB_MAGIC:
                return ['magic'], []
            try:
                kids = read_all(raw[8:])
            except TlvError:
                return ['tlv:records-do-not-tile'], []
            return self.sequence(SCHEMAS['pubfile'], kids)
        try:
            t, off, _ = read_tlv(raw)
        except TlvError:
            return ['tlv:top'], []
        if off != len(raw):
            return ['tlv:trailing-bytes'], []
        sname = ROOTS[(kind, version)].get(t.tag)
        if sname is None:
            return ['top-tag'], []
        rej, skp = self.composite(sname, t.val)
        if t.nc or t.fw:
            skp = skp + ['flagged-known']
        return rej, skp


def decide(rej, skp, ignore_skips=()):
    """Three valued verdict. Anything the property text leaves open makes the whole case undecided."""
    s = [x for x in skp if x not in ignore_skips]
    if s:
        return SKIP, s[0]
    if rej:
        return REJECT, ('repeat-nc-flagged' if 'repeat-nc-flagged' in rej else rej[0])
    return ACCEPT, ''


# ------------------------------------------------------------------ trees
def expand_by_schema(t, sname):
    """raw element -> element whose composite descendants (as far as the schema knows them) are expanded. DER / unknown stay raw."""
    S = SCHEMAS[sname]
    kids = read_all(t.val)
    for c in kids:
        e = S.bytag.get(c.tag)
        if e is not None and e.kind == COMP:
            expand_by_schema(c, e.sub)
    t.val = kids
    return t


def tree_from_bytes(kind, version, raw):
    """-> (root T, schema name). For a publications file the root is a pseudo element (tag -1) holding the records."""
    if kind == 'pubfile':
        assert raw[:8] == PUB_MAGIC
        root = T(-1, raw[8:])
        return expand_by_schema(root, 'pubfile'), 'pubfile'
    t, off, _ = read_tlv(raw)
    assert off == len(raw)
    t.long = False
    sname = ROOTS[(kind, version)][t.tag]
    return expand_by_schema(t, sname), sname


def encode(kind, root):
    return PUB_MAGIC + root.payload() if kind == 'pubfile' else root.enc()


def unknown_tags(S):
    """an 8-bit and a 16-bit tag that the level does not know"""
    a = next(t for t in (0x1d, 0x1c, 0x17, 0x0f, 0x0e) if t not in S.bytag)
    b = next(t for t in (0x3fe, 0x1abc, 0x7f0, 0x0ff) if t not in S.bytag)
    return a, b


# ------------------------------------------------------------------ value cases at the lexer boundaries: (label, bytes)
def _imp(a, n=None):
    n = ALG[a][1] if n is None else n
    return bytes([a]) + bytes((0x30 + i) & 0xff for i in range(n))


LEX_CASES = {
    INT: [('zero-empty', b''), ('one', b'\x01'), ('zero-byte', b'\x00'), ('leading-zero', b'\x00\x01'), ('leading-zero-8', b'\x00' + b'\xff' * 7), ('max-8-bytes', b'\xff' * 8),
          ('2^56', b'\x01' + b'\x00' * 7), ('9-bytes', b'\x01' + b'\x00' * 8), ('9-bytes-leading-zero', b'\x00' + b'\xff' * 8), ('16-bytes', b'\x7f' * 16)],
    UTF8: [('plain', b'abc\0'), ('empty-string', b'\0'), ('no-bytes', b''), ('no-terminator', b'abc'), ('embedded-nul', b'a\0b\0'), ('two-terminators', b'ab\0\0'),
           ('2-byte', b't\xc3\xb5nu\0'), ('3-byte', b'\xe2\x82\xac\0'), ('4-byte', b'\xf0\x9f\x98\x80\0'), ('stray-continuation', b'a\x80\0'), ('stray-continuation-bf', b'\xbfz\0'),
           ('truncated-2', b'a\xc3\0'), ('truncated-3', b'\xe2\x82\0'), ('truncated-4', b'\xf0\x9f\x98\0'), ('lead-then-ascii', b'\xc3x\0'), ('lead-then-lead', b'\xc3\xc3\xb5\0'),
           ('extra-continuation', b'\xc3\xb5\xb5\0'), ('lead-f8', b'\xf8\x88\x80\x80\x80\0'), ('lead-fc', b'\xfc\x84\x80\x80\x80\x80\0'), ('lead-fe', b'\xfe\0'), ('lead-ff', b'a\xffb\0'),
           ('lead-f8-3-continuations', b'\xf8\x88\x80\x80\0'), ('lead-fb-3-continuations', b'x\xfb\xbf\xbf\xbfy\0'), ('lead-ff-3-continuations', b'\xff\x80\x80\x80\0'),
           ('lead-fe-1-continuation', b'\xfe\x80\0'), ('lead-f8-2-continuations', b'\xf8\x80\x80\0'),
           ('lead-f5', b'\xf5\x80\x80\x80\0'), ('lead-f7', b'\xf7\xbf\xbf\xbf\0'), ('overlong-c0', b'\xc0\x80\0'), ('overlong-e0', b'\xe0\x80\x80\0'), ('surrogate', b'\xed\xa0\x80\0'),
           ('beyond-10ffff', b'\xf4\x90\x80\x80\0'), ('max-f4', b'\xf4\x8f\xbf\xbf\0'), ('long-300', b'x' * 300 + b'\0')],
    IMPRINT: [(('alg-%d' % a), _imp(a)) for a in sorted(ALG)] +
             [('alg-3', b'\x03' + bytes(28)), ('alg-6', b'\x06' + bytes(32)), ('alg-12', b'\x0c' + bytes(32)), ('alg-0x7e', b'\x7e' + bytes(32)),
              ('alg-0xff', b'\xff' + bytes(20)), ('sha256-short', _imp(1, 31)), ('sha256-long', _imp(1, 33)), ('sha1-with-32', _imp(0, 32)), ('sha512-short', _imp(5, 63)),
              ('id-only', b'\x01'), ('empty', b''), ('unknown-id-only', b'\x0d')],
    LEGACY: [('GT', bytes([3, 0, 2]) + b'GT' + bytes(24)), ('name-25', bytes([3, 0, 25]) + b'x' * 25 + b'\0'), ('utf8-name', bytes([3, 0, 5]) + 'tõnu'.encode() + bytes(21)),
             ('first-byte-2', bytes([2, 0, 2]) + b'GT' + bytes(24)), ('first-byte-4', bytes([4, 0, 2]) + b'GT' + bytes(24)), ('second-byte-1', bytes([3, 1, 2]) + b'GT' + bytes(24)),
             ('name-length-26', bytes([3, 0, 26]) + b'x' * 26), ('name-length-255', bytes([3, 0, 255]) + b'x' * 26), ('padding-nonzero-last', bytes([3, 0, 2]) + b'GT' + bytes(23) + b'\x01'),
             ('padding-nonzero-first', bytes([3, 0, 2]) + b'GT\x01' + bytes(23)), ('28-bytes', bytes([3, 0, 2]) + b'GT' + bytes(23)), ('30-bytes', bytes([3, 0, 2]) + b'GT' + bytes(25)),
             ('empty', b''), ('empty-name', bytes([3, 0, 0]) + bytes(26)), ('nul-in-name', bytes([3, 0, 3]) + b'a\0b' + bytes(23)), ('name-not-utf8', bytes([3, 0, 2]) + b'\xff\xfe' + bytes(24))],
    OCTETS: [('empty', b''), ('one', b'\x00'), ('300-bytes', bytes(range(256)) + bytes(44))],
}
LEX_CASES[TIME] = LEX_CASES[INT]
LEX_CASES[UTF8NZ] = LEX_CASES[UTF8]
UNKNOWN_PAYLOADS = [b'', b'\x01\x02\x03', b'\x01\x01\x00\x02\x02\xff\xff', b'\xff' * 5, bytes(40)]


def minimal_value(e, depth=0):
    """smallest schema-valid value of an element (schema-aware construction); None when this project cannot build one (DER, 0x804)"""
    k = e.kind
    if k in (INT, TIME):
        return b'\x01'
    if k == IMPRINT:
        return _imp(1)
    if k in (UTF8, UTF8NZ):
        return b'a\0'
    if k == OCTETS:
        return b'\x01'
    if k == LEGACY:
        return bytes([3, 0, 2]) + b'GT' + bytes(24)
    if k == COMP:
        S = SCHEMAS[e.sub]
        kids, have = [], set()
        for x in S.entries:
            n = x.min
            if n == 0 and x.least and x.least not in have:
                n = 1
            if n and x.least:
                have.add(x.least)
            for _ in range(n):
                v = minimal_value(x, depth + 1)
                if v is None:
                    return None
                kids.append(T(x.tag, v))
        return kids
    return None


class Mut:
    """description of the mutation that is currently applied to the tree"""
    __slots__ = ('cls', 'path', 'kind', 'single', 'in_meta', 'in_pubdata', 'note', 'sname')

    def __init__(self, cls, path, kind='', single=False, in_meta=False, in_pubdata=False, note='', sname=''):
        self.cls, self.path, self.kind, self.single, self.in_meta, self.in_pubdata, self.note, self.sname = cls, path, kind, single, in_meta, in_pubdata, note, sname

    def where(self):
        return '/'.join('%x' % t for t in self.path)


def mutations(root, sname, top_level='all', thorough=False, skip_inside=()):
    """Generator. Applies one mutation at a time IN PLACE to the expanded tree `root` (schema `sname`), yields a Mut while it is
    applied (the caller encodes the tree), then undoes it. Every position of every expanded level is visited.
    top_level: 'all' | 'few' (publications file: the order rules of the record sequence belong to C18, only a few operations there)."""

    def visit(node, S, path, in_meta, in_pub, depth):
        kids = node.val
        in_meta = in_meta or S.name == 'metadata'
        in_pub = in_pub or S.name == 'publication_data'
        few = (top_level == 'few' and depth == 0)
        u8, u16 = unknown_tags(S)
        # ---- insertion of an unknown element at every position
        for pos in range(len(kids) + 1):
            combos = [(False, u8 if pos % 2 == 0 else u16, bool(pos & 2)), (True, u16 if pos % 2 == 0 else u8, not (pos & 2))]
            if thorough:
                combos += [(False, u16 if pos % 2 == 0 else u8, True), (True, u8 if pos % 2 == 0 else u16, False)]
            for nc, tag, fw in combos:
                el = T(tag, UNKNOWN_PAYLOADS[(pos + depth + (1 if nc else 0)) % len(UNKNOWN_PAYLOADS)], nc=nc, fw=fw)
                kids.insert(pos, el)
                yield Mut('ins-nc' if nc else 'ins-crit', path + (tag,), 'unknown', False, in_meta, in_pub, 'pos=%d/%d' % (pos, len(kids) - 1), S.name)
                del kids[pos]
        # ---- schema-aware construction: a minimal valid instance of every element of the level at the front, in the middle, at the end
        if not few:
            for e2 in S.entries:
                v = minimal_value(e2)
                if v is None:
                    continue
                for pos in sorted({0, len(kids) // 2, len(kids)}):
                    kids.insert(pos, T(e2.tag, v))
                    yield Mut('ins-known', path + (e2.tag,), e2.kind, e2.max == 1, in_meta or e2.sub == 'metadata', in_pub, 'pos=%d/%d' % (pos, len(kids) - 1), S.name)
                    del kids[pos]
        for i in range(len(kids)):
            k = kids[i]
            e = S.bytag.get(k.tag)
            if e is None:
                continue
            p = path + (k.tag,)
            single = e.max == 1
            kind = e.kind
            inm = in_meta or (kind == COMP and e.sub == 'metadata')
            mk = lambda cls, note='': Mut(cls, p, kind, single, inm, in_pub, note, S.name)
            # delete
            del kids[i]
            yield mk('delete')
            kids.insert(i, k)
            # duplicate (plain, and with the non-critical flag on the copy)
            c = k.copy()
            kids.insert(i + 1, c)
            if not c.nc:                      # (an element that carries the flag itself, e.g. metadata padding: its copy is a flagged duplicate)
                yield mk('dup')
            c.nc = True
            yield mk('dup-nc')
            if thorough:
                c.fw = True
                yield mk('dup-nc')
                # the copy somewhere else: at the end of the level
                del kids[i + 1]
                kids.append(c)
                yield mk('dup-nc', 'copy-at-end')
                c.nc, c.fw = k.nc, k.fw
                if not c.nc:
                    yield mk('dup', 'copy-at-end')
                kids.pop()
            else:
                del kids[i + 1]
            # swap with the right neighbour
            if i + 1 < len(kids):
                kids[i], kids[i + 1] = kids[i + 1], kids[i]
                yield mk('swap')
                kids[i], kids[i + 1] = kids[i + 1], kids[i]
            # move to the front / to the end
            if i > 1:
                kids.insert(0, kids.pop(i))
                yield mk('move', 'to-front')
                kids.insert(i, kids.pop(0))
            if i < len(kids) - 2:
                kids.append(kids.pop(i))
                yield mk('move', 'to-end')
                kids.insert(i, kids.pop())
            if not few:
                # retag: every tag of the level's alphabet, unknown tags (critical as is, and flagged non-critical)
                old = k.tag
                for t in S.alphabet:
                    if t != old:
                        k.tag = t
                        yield mk('retag-known', 'to=%x' % t)
                for t in (u8, u16):
                    k.tag = t
                    yield mk('retag-unknown-crit' if not k.nc else 'retag-unknown-nc', 'to=%x' % t)
                    onc = k.nc
                    k.nc = not onc
                    yield mk('retag-unknown-crit' if not k.nc else 'retag-unknown-nc', 'to=%x' % t)
                    k.nc = onc
                k.tag = old
                # flags on a known element (not constrained by the property: executed, not judged)
                onc, ofw = k.nc, k.fw
                for nc, fw in ((True, False), (False, True), (True, True), (False, False)):
                    if (nc, fw) != (onc, ofw):
                        k.nc, k.fw = nc, fw
                        yield mk('flags', 'nc=%d,fw=%d' % (nc, fw))
                k.nc, k.fw = onc, ofw
                # 16-bit header form
                if not k.long and k.tag <= 0x1f and len(k.payload()) <= 0xff:
                    k.long = True
                    yield mk('long-header')
                    k.long = False
                # resize / value cases (never inside opaque DER)
                if kind != DER and kind != OOD:
                    ov = k.val
                    pl = k.payload()
                    k.val = pl + b'\0'
                    yield mk('resize+1')
                    if pl:
                        k.val = pl[:-1]
                        yield mk('resize-1')
                        k.val = b''
                        yield mk('empty')
                    for label, v in LEX_CASES.get(kind, ()):
                        if v != pl:
                            k.val = v
                            yield mk('lex:%s:%s' % (kind, label))
                    k.val = ov
            # descend
            if kind == COMP and isinstance(k.val, list) and k.tag not in skip_inside:
                for m in visit(k, SCHEMAS[e.sub], p, in_meta, in_pub, depth + 1):
                    yield m

    top = (root.tag,) if root.tag >= 0 else ()
    for m in visit(root, SCHEMAS[sname], top, False, False, 0):
        yield m
    # the top element itself: retag to every other root tag and to an unknown one
    if root.tag >= 0:
        old = root.tag
        for t in TOP_TAGS + [0x801, 0x7ff]:
            if t != old:
                root.tag = t
                yield Mut('top-retag', (t,), COMP, True, note='to=%x' % t, sname=sname)
        root.tag = old
        for nc, fw in ((True, False), (False, True)):
            root.nc, root.fw = nc, fw
            yield Mut('flags', top, COMP, True, note='top nc=%d,fw=%d' % (nc, fw), sname=sname)
        root.nc = root.fw = False
