#!/usr/bin/env python3
"""setup_cmd: pre-build the sanitizer library from /repo so the first check does not pay for it; verify tools exist."""
import os, sys, shutil
sys.path.insert(0, os.path.dirname(os.path.dirname(os.path.abspath(__file__))))
from vlib import core
for t in ('gcc', 'ar', 'openssl'):
    if not shutil.which(t):
        print('missing tool', t); sys.exit(1)
info = core.build_lib('asan')
print('built', info['lib'])
