#!/usr/bin/env python3
"""tools/seedtest.py <seeded-dir> [check ids...]: applies seeded/<id>/patch.diff to a scratch worktree of /repo HEAD and runs the
given checks (default: the property named in meta.json) against it; prints which keys fired. Nothing in /repo or evidence/ changes."""
import os, sys, json, subprocess, shutil, tempfile
V = os.path.dirname(os.path.dirname(os.path.abspath(__file__)))
d = os.path.abspath(sys.argv[1])
meta = json.load(open(os.path.join(d, 'meta.json'))) if os.path.exists(os.path.join(d, 'meta.json')) else {}
checks = sys.argv[2:] or [meta.get('property') or meta.get('property_id')]
wt = tempfile.mkdtemp(prefix='seedtest-', dir='/tmp')
os.rmdir(wt)
subprocess.check_call(['git', '-C', '/repo', 'worktree', 'add', '-q', '--detach', wt, 'HEAD'])
try:
    for f in ('config.h', 'version.h'):
        if os.path.exists('/repo/src/ksi/' + f):
            shutil.copy('/repo/src/ksi/' + f, wt + '/src/ksi/' + f)
    r = subprocess.run(['git', '-C', wt, 'apply', '--3way', os.path.join(d, 'patch.diff')], stdout=subprocess.PIPE, stderr=subprocess.STDOUT)
    if r.returncode != 0:
        r = subprocess.run(['git', '-C', wt, 'apply', os.path.join(d, 'patch.diff')], stdout=subprocess.PIPE, stderr=subprocess.STDOUT)
    if r.returncode != 0:
        print('PATCH DOES NOT APPLY:', r.stdout.decode()[-500:]); sys.exit(2)
    ev = tempfile.mkdtemp(prefix='seedev-', dir=os.path.join(V, '.work') if os.path.isdir(os.path.join(V, '.work')) else '/tmp')
    env = dict(os.environ, VERIF_REPO=wt, VERIF_EVIDENCE_DIR=ev)
    res = {}
    for c in checks:
        p = subprocess.run([os.path.join(V, 'bin', 'check'), c, '--tier', os.environ.get('SEED_TIER', 'quick')], stdout=subprocess.PIPE, stderr=subprocess.STDOUT, env=env, cwd=V)
        out = p.stdout.decode('utf-8', 'replace')
        keys = [l.strip()[4:] for l in out.splitlines() if l.startswith('  key=')]
        res[c] = dict(rc=p.returncode, keys=keys[:12])
        print('%s rc=%d %s' % (c, p.returncode, 'CAUGHT: ' + '; '.join(keys[:4]) if p.returncode == 1 else ('NOT CAUGHT' if p.returncode == 0 else 'INCONCLUSIVE ' + out[-400:])))
    shutil.rmtree(ev, ignore_errors=True)
    mp = os.path.join(d, 'meta.json')
    try:
        m = json.load(open(mp))
    except Exception:
        m = {}
    m.setdefault('verif_checks', {}).update(res)
    json.dump(m, open(mp, 'w'), indent=1)
finally:
    subprocess.call(['git', '-C', '/repo', 'worktree', 'remove', '--force', wt])
