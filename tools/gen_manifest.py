#!/usr/bin/env python3
"""Regenerates MANIFEST.json from the table below (run after adding a check)."""
import json, os, sys
V = os.path.dirname(os.path.dirname(os.path.abspath(__file__)))
ALL = ['C%02d' % i for i in range(1, 21)]

CHECKS = {
 'C17': dict(level='exploration', design='3/C17', technique='differential runtime monitor: library vs independent in-process reference codec under ASan/UBSan, exhaustive single-symbol corruption per sampled string',
   text='Every generated publication string is pushed through the real encoder/decoder built with ASan+UBSan and compared with an independent reference (base32, CRC-32, layout); for each string all 31 x length substitutions, all adjacent transpositions, deletions, appends and all 256 byte values are tried. Held = no disagreement and no sanitizer report on the strings explored.',
   note='Trusts the reference codec in harness/c17_pubstr.c and the sanitizer runtimes; strings are sampled (boundary + random times, all known algorithms), corruptions per string are exhaustive.'),
 'C01': dict(level='exploration', design='3/C01', technique='differential runtime monitor: real verifier (ASan/UBSan) vs independent reference evaluator of INT-01..17 over reference-built signatures and semantic mutants',
   text='A reference aggregator/calendar builds honest signatures with random tree shapes; ~35 single-point semantic mutators and second-order mutants are applied; each case is parsed by the reference parser, judged by an independent evaluator of the consistency conditions, and compared with KSI_SignatureVerifier_verify(INTERNAL) and KSI_Signature_parse on the real library. Held = verdict classes agreed on every explored case and no sanitizer report; the run is inconclusive unless every code INT-01..15,17 was produced by a single-violation case.',
   note='Trusts vlib/refksi.py (calibrated against the bundled cross-SDK conformance pack, tools/calibrate.py), hashlib, the sanitizer runtimes. INT-16 cannot be provoked (no algorithm has an obsolescence date).'),
 'C02': dict(level='exploration', design='3/C02', technique='runtime monitor over all verifying entry points: observed verdict vs reference rule (GEN-01/03/04, refusal above 255) on generated signatures x hash/level variants',
   text='Honest reference-built signatures are verified through KSI_SignatureVerifier_verify, KSI_Signature_verifyWithPolicy (with and without caller context), KSI_verifyDataHash and KSI_Signature_verifyDocument under the six verifying policies with document hashes that are equal / differ in one bit (all bits for a subset) / carry another algorithm id, and levels around the first-link correction and the 255/2^32/2^64 boundaries; the verdict must be the documented GEN code, a refusal, or exactly the verdict obtained without a document.',
   note='Trusts vlib/gen.py and refksi; trust anchors for key/calendar/publications-file policies are not supplied here, so their matching-document baseline is NA (C04 covers anchors).'),
 'C07': dict(level='exploration', design='3/C07', technique='runtime monitor at the transport boundary: simulated HTTP/TCP transports + reference aggregator; request bytes checked, success allowed only for honest replies and the returned signature compared with the reference',
   text='The real blocking and asynchronous signing paths run over a fake libcurl and wrapped socket calls; a reference aggregator (python) parses every request at the transport boundary (hash, level, login id, MAC recomputed) and answers either honestly (random tree shapes, chunked delivery) or with one of 21 deviations (foreign/stale id, other hash, other level, non-zero status, error PDU, truncated/garbled, bad MAC, other MAC algorithm/key, other PDU version, inconsistent chains, transport failures). Success is accepted only for honest behaviours and then the returned signature must be byte-identical to the one the reference issued and internally consistent; SHA-1 input must be refused before anything is sent.',
   note='Trusts the simulated transports (harness/ksi_exec_net.c), the reference aggregator (vlib/refserver.py, vlib/gen.py) and refksi. Block-signer signing is exercised under C16.'),
 'C08': dict(level='exploration', design='3/C08', technique='runtime monitor at the transport boundary: simulated transports + reference extender on a deterministic reference calendar; result compared element-wise with source and reply',
   text='Source signatures from the reference aggregator (calendar chains cut from one deterministic reference calendar so that right links of the same second agree across publication times) are extended through the blocking HTTP/TCP clients and the asynchronous service to {calendar head, later, equal, earlier time, a publication record, a publication record with a wrong hash}; the reference extender answers honestly or with one of 21 deviations (wrong id, other times, wrong shape, other input hash, altered right link, status error, bad MAC, other version, truncated/garbled, transport errors). Success is accepted only for honest replies; then aggregation chains must be byte-identical to the source, the calendar element must be the reply chain, publication record as supplied, no authentication record, the reference evaluator must find it consistent; the source serialization must be unchanged in every case; request times/login/MAC are checked at the transport.',
   note='Trusts the simulated transports, vlib/refserver.py (Calendar, ext replies), refksi. KSI_extendSignature via a publications file is exercised under C04/C18.'),
 'C06': dict(level='exploration', design='3/C06', technique='runtime monitor at the transport boundary: request MACs recomputed with python hmac; exhaustive single-bit-flip / truncation / splice delivery test of authentic responses through every client',
   text='Every request PDU seen at the simulated transport (sign, extend, config; blocking HTTP/TCP, async TCP/HTTP, HA; PDU v1/v2; keys of 1..65535 bytes; UTF-8 login ids; SHA-256/384/512/RIPEMD-160) is parsed by the reference and its MAC recomputed over the authenticated range. For responses an authentic reply from the reference server must be delivered, and every single-bit flip of it (all bits on the blocking transports, 160 sampled bits per response on async/HA), every truncation point sampled, splices, other key/algorithm/version, missing header/MAC, element after the MAC and a MAC over a wrong range must deliver nothing (v1: or exactly the honest content); SHA-1 as MAC algorithm must be refused before sending.',
   note='Trusts python hmac/hashlib, the simulated transports and the reference PDU builder.'),
 'C13': dict(level='exploration', design='3/C13', technique='online trace monitor (sequential model of the async service) over exhaustive short and random long schedules on a simulated socket layer with a virtual clock',
   text='Schedules over {add, run, valid/duplicate/reordered/early reply, unknown id, stale id generation, bad MAC, error status, error PDU, pushed config, partial delivery, close/reset, refused connect, would-block on send, clock advance} drive the real asynchronous TCP service; every request has a unique tag and hash. The monitor checks online: returned exactly once and in a final state; a response only if an authentic status-0 reply with its own id was put on the wire, with its own id and a signature for its own hash; an error only if a justifying event (service status, error PDU, malformed/unauthenticated data, close/reset/refusal, elapsed timeout) occurred; cache-full iff outstanding = cache size; pending+received and the waiting count equal the number of outstanding requests; the request byte stream on every connection is a sequence of whole, authentic request PDUs; bounded progress after faults stop. Exhaustive for all schedules of length 3 (quick) / 4 (thorough) after an add, random schedules up to 200 steps with cache sizes 1..64.',
   note='Justifying events are attributed liberally (a fault on the connection justifies an error of any request outstanding until the client has worked the faulty PDUs off), so the monitor is sound but not tight for error causes. HTTP async service is exercised at request granularity in C07/C08/C06.'),
 'C09': dict(level='exploration', design='3/C09', technique='differential runtime monitor: three libksi TLV codecs vs an independent in-process reference codec under ASan/UBSan with poisoned guards; exhaustive header prefixes and buffer sizes',
   text='The tree codec, the element codec and the header reader are driven in-process against an independent reference codec: all 65536 two-byte prefixes x input lengths, payload lengths 0..300 and 65530..65540 in both header forms, nested trees to depth 6 including content totals of exactly 65535/65536/65537, every output buffer size from 0 to needed+8 (exactly sized heap buffers with a poisoned left guard), every truncation and +-1/+-256 length perturbation of valid encodings, stream readers over fmemopen/socketpair (consumed count). Held = byte-exact agreement, oversize content refused, mis-sized input refused, no sanitizer report.',
   note='Trusts the reference codec in harness/c09_tlv.c. Non-canonical but well-sized encodings may be accepted or refused. Socket reader is not driven with EAGAIN/partial schedules here (C14 does that).'),
}
NOT_YET = 'check not built yet in this session (planned in DESIGN.md section 3)'

def main():
    checks = []
    for pid in ALL:
        if pid not in CHECKS:
            continue
        c = CHECKS[pid]
        checks.append(dict(property_id=pid,
            quick_cmd='bin/check %s --tier quick' % pid,
            thorough_cmd='bin/check %s --tier thorough' % pid,
            evidence_file='evidence/%s.json' % pid,
            replay_cmd_template='bin/check %s --replay {path}' % pid,
            engine='bin/check',
            level_claimed=dict(category=c['level'], text=c['text'], design_ref=c['design']),
            level_note=c['note'], technique=c['technique']))
    na = [dict(property_id=p, reason=NOT_YET) for p in ALL if p not in CHECKS]
    m = dict(version=1,
        setup_cmd='python3 tools/setup.py',
        hooks=dict(guard='KSI_VERIF_HOOKS', enable='bin/check compiles src/ksi/*.c itself with -DKSI_VERIF_HOOKS (vlib/core.py build_lib); no source hooks exist today, all instrumentation is link-time interposition',
                   baseline_off_cmd='cd /repo && make include-test', source_commits=[], add_only=True),
        engines=[dict(name='bin/check', path='bin/check', serves_properties=sorted(CHECKS), kind_free_text='python driver + C harness drivers linked against an ASan/UBSan build of libksi; monitors compare observed behaviour with independent reference implementations')],
        checks=checks, not_applicable=na,
        notes='Runtime monitoring and sanitizers only. Exit 0 held / 1 violation / 2 inconclusive. known_findings.json lists repaired (fix: commits) and open findings.')
    json.dump(m, open(os.path.join(V, 'MANIFEST.json'), 'w'), indent=1)
    print('MANIFEST.json: %d checks, %d not_applicable' % (len(checks), len(na)))
main()
