#!/usr/bin/env python3
"""tools/ingest_seed.py <property> <name> [extra checks...]: take a seeded change from /tmp/seed/<property>-work, store it under
seeded/<name>/, confirm it (demo passes on the unchanged tree, fails with the patch, the pinned include test still passes) in a
scratch worktree, then run our check(s) against it. Writes the outcome into seeded/<name>/meta.json."""
import os, sys, json, subprocess, shutil, tempfile, re
V = os.path.dirname(os.path.dirname(os.path.abspath(__file__)))
prop, name = sys.argv[1], sys.argv[2]
checks = [prop] + sys.argv[3:]
src = os.environ.get('SEED_SRC', '/tmp/seed/%s-work' % prop)
dst = os.path.join(V, 'seeded', name)
if os.path.isdir(src):
    os.makedirs(dst, exist_ok=True)
    for root, dirs, files in os.walk(src):
        rel = os.path.relpath(root, src)
        for f in files:
            p = os.path.join(root, f)
            if (os.path.getsize(p) < 3000000 and not os.access(p, os.X_OK)) or f.endswith('.sh'):
                os.makedirs(os.path.join(dst, rel), exist_ok=True)
                shutil.copy(p, os.path.join(dst, rel, f))
rs = os.path.join(dst, 'run.sh')
t = open(rs).read()
t = t.replace('/tmp/seed/build.sh', '"$(cd "$(dirname "$0")" && pwd)/../_build.sh"')
t = t.replace(src, '$(cd "$(dirname "$0")" && pwd)')
open(rs, 'w').write(t)
os.chmod(rs, 0o755)

def sh(cmd, **kw):
    p = subprocess.run(cmd, stdout=subprocess.PIPE, stderr=subprocess.STDOUT, **kw)
    return p.returncode, p.stdout.decode('utf-8', 'replace')

wt = tempfile.mkdtemp(prefix='ingest-', dir='/tmp'); os.rmdir(wt)
subprocess.check_call(['git', '-C', '/repo', 'worktree', 'add', '-q', '--detach', wt, 'HEAD'])
conf = {}
try:
    for f in ('config.h', 'version.h'):
        shutil.copy('/repo/src/ksi/' + f, wt + '/src/ksi/' + f)
    rc0, out0 = sh(['sh', rs, wt])
    conf['demo_on_unchanged_tree'] = dict(exit=rc0, tail=out0[-300:])
    rc, out = sh(['git', '-C', wt, 'apply', '--3way', os.path.join(dst, 'patch.diff')])
    if rc != 0:
        rc, out = sh(['git', '-C', wt, 'apply', os.path.join(dst, 'patch.diff')])
    conf['patch_applies_to_current_head'] = rc == 0
    if rc == 0:
        rc1, out1 = sh(['sh', 'test/include-test.sh', './test'], cwd=wt, env=dict(os.environ, CC='gcc', CFLAGS='-I%s/src' % wt))
        conf['include_test_with_patch'] = dict(exit=rc1, tail=out1[-80:].strip())
        rc2, out2 = sh(['sh', rs, wt])
        conf['demo_with_patch'] = dict(exit=rc2, tail=out2[-400:])
finally:
    subprocess.call(['git', '-C', '/repo', 'worktree', 'remove', '--force', wt])
ok = conf.get('patch_applies_to_current_head') and conf['demo_on_unchanged_tree']['exit'] == 0 and conf['demo_with_patch']['exit'] != 0 and conf['include_test_with_patch']['exit'] == 0
conf['confirmed'] = bool(ok)
mp = os.path.join(dst, 'meta.json')
try:
    meta = json.load(open(mp))
except Exception:
    meta = {}
meta['property'] = prop
meta['confirmation_by_verif'] = conf
print(json.dumps(conf, indent=1)[:1500])
json.dump(meta, open(mp, 'w'), indent=1)
if ok:
    rc, out = sh([sys.executable, os.path.join(V, 'tools', 'seedtest.py'), dst] + checks)
    print(out[-1500:])
    try:
        meta['verif_checks'] = json.load(open(mp)).get('verif_checks', {})
    except Exception:
        pass
json.dump(meta, open(mp, 'w'), indent=1)
