#!/usr/bin/env python3
"""Validates MANIFEST.json and every evidence file against the schemas in /root/.vp (uses the tooling venv's jsonschema when the
system python lacks it): python3 tools/validate.py"""
import json, os, sys, subprocess
V = os.path.dirname(os.path.dirname(os.path.abspath(__file__)))
try:
    import jsonschema
except ImportError:
    vt = '/usr/local/bin/python3-vt'
    if os.path.exists(vt) and os.path.realpath(sys.executable) != os.path.realpath(vt):
        sys.exit(subprocess.call([vt, os.path.abspath(__file__)] + sys.argv[1:]))
    print('jsonschema not available'); sys.exit(2)
bad = 0
m = json.load(open(os.path.join(V, 'MANIFEST.json')))
try:
    jsonschema.validate(m, json.load(open('/root/.vp/MANIFEST.schema.json')))
    print('MANIFEST.json valid: %d checks, %d not_applicable' % (len(m['checks']), len(m.get('not_applicable', []))))
except Exception as e:
    print('MANIFEST.json INVALID:', str(e)[:500]); bad += 1
es = json.load(open('/root/.vp/EVIDENCE.schema.json'))
ids = set()
for c in m['checks']:
    p = os.path.join(V, c['evidence_file'])
    ids.add(c['property_id'])
    if not os.path.exists(p):
        print('missing evidence', c['evidence_file']); bad += 1; continue
    e = json.load(open(p))
    try:
        jsonschema.validate(e, es)
        if e['property_id'] != c['property_id'] or e['level'] != c['level_claimed']['category']:
            raise ValueError('id/level mismatch with manifest')
        print('%s ok: tier=%s seed=%s evaluations=%s distinct=%s violations=%s status=%s' % (c['property_id'], e['tier'], e['seed'], e['coverage']['evaluations'], e['coverage']['distinct_nontrivial'], e.get('violations'), e.get('status')))
    except Exception as ex:
        print('%s evidence INVALID: %s' % (c['property_id'], str(ex)[:300])); bad += 1
allp = [json.loads(l)['id'] for l in open(os.path.join(V, 'properties.jsonl'))]
na = {x['property_id'] for x in m.get('not_applicable', [])}
for p in allp:
    if p not in ids and p not in na:
        print('property %s neither claimed nor listed not_applicable' % p); bad += 1
sys.exit(1 if bad else 0)
