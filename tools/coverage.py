#!/usr/bin/env python3
"""tools/coverage.py [check ids...]: which part of src/ksi do the workloads of the checks execute at all?

Runs the quick tier of the given checks (default: all that use gcc builds) with VERIF_COVERAGE=1 - the library is then built with gcov
instrumentation in addition to the sanitizers - collects the counters the processes leave in the build directories and prints, per source file,
the share of executed lines and the functions that were never entered. Evidence and replay files of these runs go to a scratch directory.
This is an aid for finding blind spots of the workloads (code no monitor ever watches), not a check: it decides nothing."""
import os, sys, re, glob, json, subprocess, tempfile, shutil
V = os.path.dirname(os.path.dirname(os.path.abspath(__file__)))
sys.path.insert(0, V)
from vlib import core
checks = sys.argv[1:] or ['C%02d' % i for i in range(1, 21)]
ev = tempfile.mkdtemp(prefix='cov-ev-', dir=os.path.join(V, '.work') if os.path.isdir(os.path.join(V, '.work')) else None)
env = dict(os.environ, VERIF_COVERAGE='1', VERIF_EVIDENCE_DIR=ev)
before = set(glob.glob(os.path.join(core.BUILD_ROOT, 'lib-*')))
for c in checks:
    p = subprocess.run([os.path.join(V, 'bin', 'check'), c, '--tier', 'quick'], env=env, cwd=V, stdout=subprocess.PIPE, stderr=subprocess.STDOUT)
    print(c, p.stdout.decode('utf-8', 'replace').strip().splitlines()[-1][:120], flush=True)
shutil.rmtree(ev, ignore_errors=True)
# every build directory that holds counters
lines = {}      # file -> {line: count}
funcs = {}      # file -> {function: calls}
for d in glob.glob(os.path.join(core.BUILD_ROOT, 'lib-*')):
    gcdas = glob.glob(os.path.join(d, '*.gcda'))
    if not gcdas:
        continue
    for g in gcdas:
        p = subprocess.run(['gcov', '-j', '-t', '-o', d, g], stdout=subprocess.PIPE, stderr=subprocess.DEVNULL, cwd=d)
        try:
            j = json.loads(p.stdout.decode('utf-8', 'replace'))
        except Exception:
            continue
        for f in j.get('files', []):
            fn = f['file']
            if '/src/ksi/' not in fn or not fn.endswith('.c'):
                continue
            b = os.path.basename(fn)
            L = lines.setdefault(b, {})
            for ln in f.get('lines', []):
                L[ln['line_number']] = L.get(ln['line_number'], 0) + ln['count']
            F = funcs.setdefault(b, {})
            for fu in f.get('functions', []):
                F[fu['name']] = F.get(fu['name'], 0) + fu['execution_count']
tot = hit = 0
rows = []
for b in sorted(lines):
    n = len(lines[b]); h = sum(1 for v in lines[b].values() if v > 0)
    tot += n; hit += h
    never = sorted(k for k, v in funcs.get(b, {}).items() if v == 0)
    rows.append((b, n, h, never))
print('\n%-28s %7s %7s %6s  functions never entered' % ('file', 'lines', 'hit', '%'))
for b, n, h, never in rows:
    print('%-28s %7d %7d %5.1f%%  %s' % (b, n, h, 100.0 * h / max(n, 1), ', '.join(never[:60]) + (' ...' if len(never) > 60 else '')))
print('%-28s %7d %7d %5.1f%%' % ('TOTAL', tot, hit, 100.0 * hit / max(tot, 1)))
out = os.path.join(V, 'reports', 'coverage-of-workloads.json')
json.dump(dict(checks=checks, total_lines=tot, lines_executed=hit, per_file={b: dict(lines=n, executed=h, functions_never_entered=never) for b, n, h, never in rows}), open(out, 'w'), indent=1)
print('written', out)
