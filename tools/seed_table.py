#!/usr/bin/env python3
"""tools/seed_table.py: rewrites the table between the SEED-TABLE markers of DESIGN.md from seeded/*/meta.json."""
import os, json, glob, re
V = os.path.dirname(os.path.dirname(os.path.abspath(__file__)))
rows = []
for p in sorted(glob.glob(os.path.join(V, 'seeded', 'C*', 'meta.json'))):
    m = json.load(open(p))
    name = os.path.basename(os.path.dirname(p))
    files = ', '.join(sorted(set(x.split('/')[-1] for x in re.findall(r'\+\+\+ b/(\S+)', open(os.path.join(os.path.dirname(p), 'patch.diff')).read())))) or re.findall(r'\+\+\+ b/(\S+)', open(os.path.join(os.path.dirname(p), 'patch.diff')).read())[0].split('/')[-1]
    vc = m.get('verif_checks', {})
    caught = [c for c, v in sorted(vc.items()) if v.get('rc') == 1]
    missed = [c for c, v in sorted(vc.items()) if v.get('rc') == 0]
    other = [c for c, v in sorted(vc.items()) if v.get('rc') not in (0, 1)]
    key = ''
    if caught:
        ks = vc[caught[0]].get('keys') or []
        key = ks[0] if ks else ''
    hist = 'after strengthening' if m.get('verif_history') else 'first run'
    rows.append('| `%s` | %s | %s | %s | %s | `%s` |' % (name, files, ', '.join(caught) or '-', ', '.join(missed + other) or '-', hist if caught else 'NOT CAUGHT', key[:70]))
tab = ['| seeded change | file | caught by | also run, silent | when | first key |', '|---|---|---|---|---|---|'] + rows
d = open(os.path.join(V, 'DESIGN.md')).read()
a, b = '<!-- SEED-TABLE-BEGIN -->', '<!-- SEED-TABLE-END -->'
if a in d:
    d = d[:d.index(a) + len(a)] + '\n' + '\n'.join(tab) + '\n' + d[d.index(b):]
    open(os.path.join(V, 'DESIGN.md'), 'w').write(d)
print('\n'.join(tab))
