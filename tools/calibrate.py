#!/usr/bin/env python3
"""Calibrates the reference model against Guardtime's conformance pack (not against libksi):
for every row with policy 'internal' (or valid signature) compare evaluate_internal() with the expected code."""
import sys, os, csv
sys.path.insert(0, os.path.dirname(os.path.dirname(os.path.abspath(__file__))))
from vlib import refksi as R, core
base = os.path.join(core.REPO, 'test/resource/test_pack')
bad = 0; n = 0; skipped = 0
for sub, fn in (('valid-signatures', 'signature-results.csv'), ('internal-policy-signatures', 'internal-policy-results.csv'), ('invalid-signatures','invalid-signature-results.csv'), ('policy-verification-signatures','policy-verification-results.csv')):
    for row in csv.reader(open(os.path.join(base, sub, fn)), delimiter=';'):
        if not row or row[0].startswith('#'): continue
        path = os.path.join(base, sub, row[0]); pol = row[1]; code = row[2]
        if not os.path.exists(path): continue
        raw = open(path, 'rb').read()
        try:
            s = R.parse_sig(raw)
        except R.NotInDomain as ex:
            if pol == 'parsing': n += 1; continue
            if pol in ('internal',) or sub == 'valid-signatures':
                print('NOTINDOMAIN', sub, row[0], pol, code, ex); skipped += 1
            continue
        if pol == 'parsing':
            print('PARSING-EXPECTED-BUT-ACCEPTED', row[0], code, row[3]); bad += 1; continue
        v = R.evaluate_internal(s)
        n += 1
        lvl = int(row[4] or 0)
        if code.startswith('INT'):
            if code not in v.may or (len(v.may) > 1 and code not in v.must):
                print('MISMATCH', sub, row[0], 'expected', code, 'got', v); bad += 1
            elif v.may != {code}:
                print('  multi', row[0], code, v)
        elif pol == 'internal' or sub == 'valid-signatures':
            if v.may and not code:
                print('MISMATCH', sub, row[0], 'expected OK got', v); bad += 1
        else:
            if v.must and not code.startswith('GEN'):
                print('MISMATCH(nonint)', sub, row[0], pol, code, v); bad += 1
        # cross-check recorded values of valid signatures
        if sub == 'valid-signatures' and len(row) > 9 and row[6]:
            lev = 0; root = None
            for c in s.chains:
                root, lev = c.output(lev)
            if root.hex().upper() != row[6]:
                print('AGGR-ROOT differs', row[0], root.hex(), row[6]); bad += 1
            if s.cal and row[7] and s.cal.root().hex().upper() != row[7]:
                print('CAL-ROOT differs', row[0]); bad += 1
            if s.cal and row[10] and R.pub_string(s.cal.pub_time, s.cal.root()) != row[10]:
                print('PUBSTRING differs', row[0], R.pub_string(s.cal.pub_time, s.cal.root()), row[10]); bad += 1
print('calibration: %d rows, %d mismatches, %d not in domain' % (n, bad, skipped))
sys.exit(1 if bad else 0)
